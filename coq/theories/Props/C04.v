(* Props/C04.v — every response is a well-formed, self-delimiting message with exactly the body.
   Only statements. `parse_response` is the independent RFC 7230 client parser of ClientSpec.v. *)
From TH Require Import Base.Bytes Http.Response Http.ClientSpec Http.ResponseFacts Http.C04Facts.
Open Scope N_scope.

(* For every well-formed response (status 100..999, token header names, values free of LF, length
   declared correctly or not at all), either coding decision, every request version, HEAD or not,
   and ANY bytes that follow on the connection: the client recovers the status and exactly the
   body, knows where the message ends without waiting for the connection to close, and what follows
   the message is exactly what followed it on the wire. *)
Theorem c04_wellformed :
  forall te0 date r ver head tail,
    wf_response r -> nolf date = true -> In ver versions ->
    exists p, parse_response head (raw_print_with te0 date r ver head None ++ tail) = Some p /\
              p_status p = status r /\ p_body p = expected_body head r /\ p_rest p = tail /\
              p_delim p <> UntilClose.
Proof. exact roundtrip. Qed.
Print Assumptions c04_wellformed.

(* In answer to HEAD and with 1xx, 204, 304 the output is the head and nothing else. *)
Theorem c04_no_body_bytes :
  forall te0 date r ver head up,
    head || no_body_status (status r) = true ->
    raw_print_with te0 date r ver head up =
    render_head ver (status r)
      (final_headers date r up (match up with Some _ => None | None => Some te0 end)
         (match data_length r, match up with Some _ => None | None => Some te0 end with
          | Some l, _ => Some l
          | None, Some Identity => Some (len (rbody r))
          | None, _ => None
          end)).
Proof. exact no_body_bytes. Qed.
Print Assumptions c04_no_body_bytes.

(* the chunked coding of any body decodes to that body and stops exactly at its end,
   for every chunk size c > 0 *)
Theorem c04_chunked_roundtrip :
  forall c, (0 < c)%nat -> N.of_nat c < USIZE_BOUND ->
  forall d tail fuel, (List.length d < fuel)%nat ->
    dechunk fuel (chunk_encode_c c d ++ tail) [] = Some (d, tail).
Proof. exact dechunk_encode. Qed.
Print Assumptions c04_chunked_roundtrip.

(* the hypothesis wf_response is met by every response the application builds from well-formed
   headers through the constructor, add_header/with_header and with_chunked_threshold *)
Theorem c04_built_is_wf :
  forall st hs b ops,
    100 <= st <= 999 -> forallb wf_header hs = true -> forallb wf_rop ops = true ->
    len b < USIZE_BOUND ->
    forallb (fun o => match o with WithStatus _ | WithData _ _ => false | _ => true end) ops = true ->
    forallb (fun h => negb (equiv "Content-Length" h)) hs = true ->
    forallb (fun o => match o with WithHeader h => negb (equiv "Content-Length" h) | _ => true end) ops = true ->
    forall dl, dl = None \/ dl = Some (len b) ->
    wf_response (build (new_response st hs b dl) ops).
Proof. exact built_wf. Qed.
Print Assumptions c04_built_is_wf.

(* non-vacuity: a concrete chunked response followed by further bytes *)
Example c04_example :
  option_map (fun p => (p_status p, p_body p, p_rest p, p_delim p))
    (parse_response false (raw_print_with Chunked (s "D") (from_data (s "hello")) (1,1) false None ++ s "NEXT"))
  = Some (200, s "hello", s "NEXT", ByChunked).
Proof. vm_compute. reflexivity. Qed.
Example c04_example_wf : wf_response (from_data (s "hello")).
Proof. unfold wf_response. repeat split; try (vm_compute; congruence). - repeat constructor. - now right. Qed.
