(* Props/C05.v — Chunked/identity selection is a fixed function of version, status, TE and length.
   Only statements: each theorem is closed by `exact <lemma>`, pinned by `Check`, and followed by
   `Print Assumptions`. *)
From TH Require Import Base.Bytes Http.Response Http.C05Spec Http.TEFacts Http.ResponseFacts Http.C05Facts.
From Coq Require Import ZArith.

(* the decision made by the code is the reference decision, for every status, version, length,
   threshold and TE header whose q values lie in the modelled sub-domain *)
Theorem c05_choice_is_reference :
  forall status rh ver dlen thr entries,
    te_entries rh = Some entries ->
    choose_te status rh ver dlen thr = Some (ref_choice status entries ver dlen thr).
Proof. exact choice_is_reference. Qed.
Print Assumptions c05_choice_is_reference.

(* the sort-then-scan of the code is "first entry of maximal q among the supported ones with q>0" *)
Theorem c05_wish_is_first_argmax :
  forall l, first_supported (sort_desc l) = coding_of (first_argmax (filter eligible l)).
Proof. exact wish_is_reference. Qed.
Print Assumptions c05_wish_is_first_argmax.

Theorem c05_first_argmax_is_max :
  forall l m, first_argmax l = Some m -> In m l /\ forall e, In e l -> (snd e <= snd m)%Z.
Proof. exact first_argmax_is_max. Qed.
Print Assumptions c05_first_argmax_is_max.

Theorem c05_default_threshold : forall r, threshold r = None -> chunked_threshold r = 32768%N.
Proof. exact default_threshold. Qed.
Print Assumptions c05_default_threshold.

(* what is sent starts with the head carrying exactly these headers *)
Theorem c05_head_carries_framing :
  forall te0 date r ver nb up, exists body,
    raw_print_with te0 date r ver nb up = render_head ver (status r) (framing_of date r up te0) ++ body.
Proof. exact raw_print_head. Qed.
Print Assumptions c05_head_carries_framing.

Theorem c05_identity_has_cl :
  forall date r, clean r ->
    let hs := framing_of date r None Identity in
    filter is_cl hs = [mkH (s "Content-Length")
                           (print_dec match data_length r with Some l => l | None => len (rbody r) end)]
    /\ filter is_te hs = [].
Proof. exact identity_has_cl. Qed.
Print Assumptions c05_identity_has_cl.

Theorem c05_chunked_has_te_no_cl :
  forall date r, clean r ->
    let hs := framing_of date r None Chunked in
    filter is_te hs = [mkH (s "Transfer-Encoding") (s "chunked")] /\ filter is_cl hs = [].
Proof. exact chunked_has_te_no_cl. Qed.
Print Assumptions c05_chunked_has_te_no_cl.

Theorem c05_upgrade_has_neither :
  forall date r p te0, clean r ->
    let hs := framing_of date r (Some p) te0 in
    filter is_cl hs = [] /\ filter is_te hs = [].
Proof. exact upgrade_has_neither. Qed.
Print Assumptions c05_upgrade_has_neither.

(* every response the application can build is `clean` *)
Theorem c05_built_is_clean :
  forall st hs b dl ops, clean (build (new_response st hs b dl) ops).
Proof. intros. apply build_clean, new_response_clean. Qed.
Print Assumptions c05_built_is_clean.

(* non-vacuity: a TE header with three entries where the tie goes to the earlier one *)
Example c05_example :
  choose_te 200 [mkH (s "te") (s "gzip;q=1, identity;q=0.5, chunked;q=0.5")] (1, 1)%N (Some 5%N) 0%N
  = Some Identity
  /\ te_entries [mkH (s "te") (s "gzip;q=1, identity;q=0.5, chunked;q=0.5")]
     = Some [(s "gzip", 1000%Z); (s "identity", 500%Z); (s "chunked", 500%Z)].
Proof. vm_compute. split; reflexivity. Qed.
