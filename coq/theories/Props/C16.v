(* Props/C16.v — placeholder; theorems are added as the proofs land. *)
From TH Require Import Base.Bytes Http.Response Http.Request Http.Body Http.Serve.
(* obsolete line folding: rejected by the repaired tree, interpreted by the tree as found (D8) *)
Example c16_example_fold :
  let x := s "POST /a HTTP/1.1" ++ CRLF ++ s "X: a" ++ CRLF ++ s " Content-Length: 5" ++ CRLF ++ CRLF ++ s "hello" in
  read_head fixed x = HeadBadHeader (1,1)%N /\
  (exists hs rest, read_head asfound x = HeadOk (s "POST") (s "/a") (1,1)%N hs rest /\
                   framing asfound hs = FrOk (KBuffered 5) (Some 5%N) false).
Proof. split; [vm_compute; reflexivity|]. eexists. eexists. split; vm_compute; reflexivity. Qed.
(* Content-Length: +5 / a list / 23 digits: 400 on the repaired tree; as found "+5" frames 5 bytes
   and the other two are treated as absent (D9) *)
Example c16_example_cl :
  framing fixed [mkH (s "Content-Length") (s "+5")] = FrBadContentLength /\
  framing fixed [mkH (s "Content-Length") (s "5, 5")] = FrBadContentLength /\
  framing fixed [mkH (s "Content-Length") (s "99999999999999999999999")] = FrBadContentLength /\
  framing asfound [mkH (s "Content-Length") (s "+5")] = FrOk (KBuffered 5) (Some 5%N) false /\
  framing asfound [mkH (s "Content-Length") (s "5, 5")] = FrOk KEmpty None false.
Proof. vm_compute. repeat split; reflexivity. Qed.
