(* Props/C16.v — placeholder; theorems are added as the proofs land. *)
From TH Require Import Base.Bytes Http.Response Http.Request Http.Body Http.Serve.
(* obsolete line folding: rejected by the repaired tree, interpreted by the tree as found (D8) *)
Definition c16_fold_input : bytes :=
  s "POST /a HTTP/1.1" ++ CRLF ++ s "X: a" ++ CRLF ++ s " Content-Length: 5" ++ CRLF ++ CRLF ++ s "hello".
Example c16_example_fold :
  read_head fixed c16_fold_input = HeadBadHeader (1,1)%N /\
  match read_head asfound c16_fold_input with
  | HeadOk _ _ _ hs _ => framing asfound hs
  | _ => FrBadContentLength
  end = FrOk (KBuffered 5) (Some 5%N) false.
Proof. split; vm_compute; reflexivity. Qed.
(* Content-Length: +5 / a list / 23 digits: 400 on the repaired tree; as found "+5" frames 5 bytes
   and the other two are treated as absent (D9) *)
Example c16_example_cl :
  framing fixed [mkH (s "Content-Length") (s "+5")] = FrBadContentLength /\
  framing fixed [mkH (s "Content-Length") (s "5, 5")] = FrBadContentLength /\
  framing fixed [mkH (s "Content-Length") (s "99999999999999999999999")] = FrBadContentLength /\
  framing asfound [mkH (s "Content-Length") (s "+5")] = FrOk (KBuffered 5) (Some 5%N) false /\
  framing asfound [mkH (s "Content-Length") (s "5, 5")] = FrOk KEmpty None false.
Proof. vm_compute. repeat split; reflexivity. Qed.

(* ======================================================================================== *)
From TH Require Import Http.LineFacts Http.HeadFacts Http.FramingFacts Http.ServeRefuseFacts.
Open Scope char_scope.

(* ---- (a) header lines ---- *)
(* bad_header_line l: l has no colon, or a whitespace byte occurs before its first colon *)
Theorem c16_ws_in_name_rejected : forall l : bytes,
  bad_header_line l = true -> parse_header (trim_end l) = None.
Proof. exact bad_line_rejected. Qed.
Print Assumptions c16_ws_in_name_rejected.

(* ... and nothing else is refused *)
Theorem c16_header_line_exact : forall l : bytes,
  parse_header (trim_end l) = None <-> bad_header_line l = true.
Proof. intros l. rewrite parse_header_trim_end. apply parse_header_none. Qed.
Print Assumptions c16_header_line_exact.

(* the shapes the property names *)
Theorem c16_shapes :
  (forall l, nosep ":" l = true -> bad_header_line l = true) /\                     (* no colon *)
  (forall c l, is_ws c = true -> bad_header_line (c :: l) = true) /\                (* folding *)
  (forall n r, nosep ":" n = true -> existsb is_ws n = true ->
               bad_header_line (n ++ ":" :: r) = true).          (* blank in / after the name *)
Proof. split; [exact bad_no_colon|split; [exact bad_leading_ws|exact bad_ws_before_colon]]. Qed.
Print Assumptions c16_shapes.

(* a valid request line, any number of accepted header lines, a refused line, then ANY bytes *)
Theorem c16_head_rejected : forall rl m u ver goods bad tail,
  all_ascii rl = true -> no_crlf rl = true -> parse_request_line (trim rl) = Some (m, u, ver) ->
  forallb good_line goods = true ->
  all_ascii bad = true -> no_crlf bad = true -> bad <> [] -> bad_header_line bad = true ->
  read_head fixed (rl ++ CRLF ++ lines goods ++ bad ++ CRLF ++ tail) = HeadBadHeader ver.
Proof. exact read_head_bad_header. Qed.
Print Assumptions c16_head_rejected.

(* ---- (b) Content-Length ---- *)
Theorem c16_bad_content_length_rejected : forall (hs : list header) (v : bytes),
  header_value "Content-Length" hs = Some v ->
  v = [] \/ forallb is_digit v = false \/ (USIZE_BOUND <= dec_value v)%N ->
  framing fixed hs = FrBadContentLength.
Proof. exact bad_content_length_rejected. Qed.
Print Assumptions c16_bad_content_length_rejected.

Theorem c16_bad_content_length_exact : forall hs : list header,
  framing fixed hs = FrBadContentLength <->
  exists v, header_value "Content-Length" hs = Some v /\ cl_ok v = false.
Proof. exact bad_content_length. Qed.
Print Assumptions c16_bad_content_length_exact.

Theorem c16_good_content_length_accepted : forall (hs : list header) (v : bytes),
  header_value "Content-Length" hs = Some v ->
  v <> [] -> forallb is_digit v = true -> (dec_value v < USIZE_BOUND)%N ->
  framing fixed hs <> FrBadContentLength /\
  forall k bl e, framing fixed hs = FrOk k bl e ->
    bl = match header_value "Transfer-Encoding" hs with Some _ => None | None => Some (dec_value v) end.
Proof. exact good_content_length_accepted. Qed.
Print Assumptions c16_good_content_length_accepted.

(* the first header whose name matches case-insensitively decides *)
Theorem c16_first_content_length_decides : forall pre h post,
  forallb (fun h' => negb (equiv "Content-Length" h')) pre = true -> equiv "Content-Length" h = true ->
  header_value "Content-Length" (pre ++ h :: post) = Some (hvalue h).
Proof. exact (header_value_first "Content-Length"). Qed.
Print Assumptions c16_first_content_length_decides.

(* ---- (c) one iteration of the connection loop, in any state ---- *)
Theorem c16_serve_rejects : forall c date f script dflt st wire reqs al ok,
  (forall ver, read_head c (sbytes st) = HeadBadHeader ver ->
     serve_loop c date (S f) script dflt st wire reqs al ok
     = mkO (frev reqs) (wire ++ error_bytes date 400 ver false) CClosed al ok) /\
  (forall m url ver hs rest,
     read_head c (sbytes st) = HeadOk m url ver hs rest -> framing c hs = FrBadContentLength ->
     serve_loop c date (S f) script dflt st wire reqs al ok
     = mkO (frev reqs) (wire ++ error_bytes date 400 ver false) CClosed al ok).
Proof. intros. split; [apply step_bad_header|apply step_bad_content_length]. Qed.
Print Assumptions c16_serve_rejects.

(* what is appended is a response whose status line says 400 *)
Theorem c16_error_bytes_400 : forall date ver nb, exists more,
  error_bytes date 400 ver nb =
  s "HTTP/" ++ print_dec (fst ver) ++ s "." ++ print_dec (snd ver) ++ s " 400 Bad Request" ++ CRLF ++ more.
Proof.
  intros. destruct (error_bytes_status_line date 400 ver nb) as [more E]. exists more. rewrite E.
  replace (s " 400 Bad Request") with ([SP] ++ print_dec 400 ++ [SP] ++ Reason.reason_phrase 400)
    by (vm_compute; reflexivity).
  rewrite <- !app_assoc. reflexivity.
Qed.
Print Assumptions c16_error_bytes_400.

(* ---- the whole connection, the smuggling head first ---- *)
Theorem c16_serve_bad_header_line : forall date script dflt eof rl m u ver goods bad tail,
  all_ascii rl = true -> no_crlf rl = true -> parse_request_line (trim rl) = Some (m, u, ver) ->
  forallb good_line goods = true ->
  all_ascii bad = true -> no_crlf bad = true -> bad <> [] -> bad_header_line bad = true ->
  serve fixed date script dflt (rl ++ CRLF ++ lines goods ++ bad ++ CRLF ++ tail) eof
  = mkO [] (error_bytes date 400 ver false) CClosed [] true.
Proof. intros. apply serve_bad_header. now apply (read_head_bad_header rl m u). Qed.
Print Assumptions c16_serve_bad_header_line.

Theorem c16_serve_bad_content_length : forall date script dflt eof rl m u ver goods v tail,
  all_ascii rl = true -> no_crlf rl = true -> parse_request_line (trim rl) = Some (m, u, ver) ->
  forallb good_line goods = true ->
  header_value "Content-Length" (map hdr_of goods) = Some v ->
  v = [] \/ forallb is_digit v = false \/ (USIZE_BOUND <= dec_value v)%N ->
  serve fixed date script dflt (rl ++ CRLF ++ lines goods ++ CRLF ++ tail) eof
  = mkO [] (error_bytes date 400 ver false) CClosed [] true.
Proof.
  intros date script dflt eof rl m u ver goods v tail A C P G H B.
  apply (serve_bad_content_length _ _ _ _ _ m u ver (map hdr_of goods) tail).
  - now apply read_head_complete.
  - now apply (bad_content_length_rejected _ v).
Qed.
Print Assumptions c16_serve_bad_content_length.

(* ---- the hypotheses are satisfiable ---- *)
Example c16_example_hyps_fold :
  let rl := s "POST /a HTTP/1.1" in let goods := [s "X: a"] in let bad := s " Content-Length: 5" in
  c16_fold_input = rl ++ CRLF ++ lines goods ++ bad ++ CRLF ++ (CRLF ++ s "hello") /\
  all_ascii rl = true /\ no_crlf rl = true /\
  parse_request_line (trim rl) = Some (s "POST", s "/a", (1, 1)%N) /\
  forallb good_line goods = true /\
  all_ascii bad = true /\ no_crlf bad = true /\ bad_header_line bad = true.
Proof. vm_compute. repeat split; reflexivity. Qed.

Example c16_example_bad_lines :
  map bad_header_line [s "Content-Length : 5"; s "Content Length: 5"; s "no colon here"; HT :: s "x: y"; s " "; s ": v"; s "A:"]
  = [true; true; true; true; true; false; false].
Proof. vm_compute. reflexivity. Qed.

Example c16_example_hyps_cl :
  let goods := [s "Host: x"; s "content-LENGTH: 18446744073709551616"; s "Content-Length: 3"; s "Transfer-Encoding: chunked"] in
  forallb good_line goods = true /\
  header_value "Content-Length" (map hdr_of goods) = Some (s "18446744073709551616") /\
  dec_value (s "18446744073709551616") = USIZE_BOUND /\
  forallb is_digit (s "18446744073709551616") = true /\
  framing fixed (map hdr_of goods) = FrBadContentLength.
Proof. vm_compute. repeat split; reflexivity. Qed.

Example c16_example_serve :
  let o := serve fixed (s "D") [] (mkA [] (FRespond 200 (s "ok") true))
             (c16_fold_input ++ s "GET /smuggled HTTP/1.1" ++ CRLF ++ CRLF) true in
  o_reqs o = [] /\ o_end o = CClosed /\ firstn 26 (o_wire o) = s "HTTP/1.1 400 Bad Request" ++ CRLF.
Proof. vm_compute. repeat split; reflexivity. Qed.

(* ---- the smuggling head at any position: after k well-formed requests without a body that keep
   the connection alive (quiet_run, Http/ServeGoodFacts.v), whatever the handler does with them ---- *)
From TH Require Import Http.ServeGoodFacts.
Theorem c16_serve_rejects_after_requests : forall date script dflt eof goods x ver,
  quiet_run goods = true ->
  (read_head fixed x = HeadBadHeader ver \/
   exists m u hs rest, read_head fixed x = HeadOk m u ver hs rest /\ framing fixed hs = FrBadContentLength) ->
  exists w ds ok', Forall2 delivered_as (map fst goods) ds /\
    serve fixed date script dflt (render_run goods ++ x) eof
    = mkO ds (w ++ error_bytes date 400 ver false) CClosed [] ok'.
Proof. exact serve_run_then_400. Qed.
Print Assumptions c16_serve_rejects_after_requests.

Definition c16_get (target : string) : req_head * list (bytes * bytes) :=
  (mkRq (s "GET") (s target) (1, 1)%N [(s "Host", s "h"); (s "Content-Length", s "0")], [([SP], []); ([SP], [HT])]).
Example c16_example_after_requests :
  quiet_run [c16_get "/1"; c16_get "/2"] = true /\
  let o := serve fixed (s "D") [mkA [(10%N, 4%nat)] FDrop] (mkA [] (FRespond 200 (s "ok") true))
             (render_run [c16_get "/1"; c16_get "/2"] ++ c16_fold_input ++ s "GET /smuggled HTTP/1.1" ++ CRLF ++ CRLF) false in
  map d_url (o_reqs o) = [s "/1"; s "/2"] /\ o_end o = CClosed.
Proof. vm_compute. repeat split; reflexivity. Qed.

(* the tree as found interprets both: the folded line becomes a Content-Length header that frames
   the body (D8), "+5" frames five bytes (D9) — with a front end that ignores them, the next
   "request" is taken from what the front end considers body bytes *)
Example c16_asfound_refuted :
  let a := mkA [(10%N, 10%nat)] (FRespond 200 (s "ok") true) in
  let o8 := serve asfound (s "D") [] a (c16_fold_input ++ s "GET /next HTTP/1.1" ++ CRLF ++ CRLF) true in
  let o9 := serve asfound (s "D") [] a
              (s "POST /a HTTP/1.1" ++ CRLF ++ s "Content-Length: +5" ++ CRLF ++ CRLF ++ s "hello"
               ++ s "GET /next HTTP/1.1" ++ CRLF ++ CRLF) true in
  map (fun d => (d_url d, d_read d)) (o_reqs o8) = [(s "/a", s "hello"); (s "/next", [])] /\
  map (fun d => (d_url d, d_read d)) (o_reqs o9) = [(s "/a", s "hello"); (s "/next", [])] /\
  parse_header (trim (s " Content-Length: 5")) = Some (mkH (s "Content-Length") (s "5")) /\
  parse_header (trim_end (s " Content-Length: 5")) = None.
Proof. vm_compute. repeat split; reflexivity. Qed.
