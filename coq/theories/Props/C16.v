(* Props/C16.v — placeholder; theorems are added as the proofs land. *)
From TH Require Import Base.Bytes Http.Response Http.Request Http.Body Http.Serve.
(* obsolete line folding: rejected by the repaired tree, interpreted by the tree as found (D8) *)
Definition c16_fold_input : bytes :=
  s "POST /a HTTP/1.1" ++ CRLF ++ s "X: a" ++ CRLF ++ s " Content-Length: 5" ++ CRLF ++ CRLF ++ s "hello".
Example c16_example_fold :
  read_head fixed c16_fold_input = HeadBadHeader (1,1)%N /\
  match read_head asfound c16_fold_input with
  | HeadOk _ _ _ hs _ => framing asfound hs
  | _ => FrBadContentLength
  end = FrOk (KBuffered 5) (Some 5%N) false.
Proof. split; vm_compute; reflexivity. Qed.
(* Content-Length: +5 / a list / 23 digits: 400 on the repaired tree; as found "+5" frames 5 bytes
   and the other two are treated as absent (D9) *)
Example c16_example_cl :
  framing fixed [mkH (s "Content-Length") (s "+5")] = FrBadContentLength /\
  framing fixed [mkH (s "Content-Length") (s "5, 5")] = FrBadContentLength /\
  framing fixed [mkH (s "Content-Length") (s "99999999999999999999999")] = FrBadContentLength /\
  framing asfound [mkH (s "Content-Length") (s "+5")] = FrOk (KBuffered 5) (Some 5%N) false /\
  framing asfound [mkH (s "Content-Length") (s "5, 5")] = FrOk KEmpty None false.
Proof. vm_compute. repeat split; reflexivity. Qed.
