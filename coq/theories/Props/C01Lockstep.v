(* Props/C01Lockstep.v — what makes the lock-step runs of the REAL sequential-writer chain (src/util/sequential.rs) against
   the model Conc/SeqWriter.v meaningful. The harness runs the real chain under a controlled scheduler, replays the
   recorded labels through `step true`, checks that every operation the real code is still blocked in is DISABLED in
   the model, and expects well-ordered scripts to run to completion.
   Statements only; proofs in Conc/SeqWriterStepFacts.v, SeqWriterPrograms.v, SeqWriterProgress.v.
   All theorems are over ALL reachable states (`run true init ls = Some s`, any `ls`), any number of writers, any
   byte type. `step … = None` means the calling thread blocks. *)
From Coq Require Import List Arith Bool Lia.
Import ListNotations.
From TH Require Import Conc.SeqWriter Conc.SeqWriterFacts Conc.SeqWriterStepFacts Conc.SeqWriterPrograms
  Conc.SeqWriterProgress.

Local Arguments turn {byte}.
Local Arguments dropped {byte}.
Local Arguments sent {byte}.
Local Arguments ws {byte}.
Local Arguments stream {byte}.
Local Arguments New {byte}.
Local Arguments Write {byte}.
Local Arguments Flush {byte}.
Local Arguments DropW {byte}.
Local Arguments step {byte}.
Local Arguments run {byte}.
Local Arguments init {byte}.
Local Arguments label_index {byte}.
Local Arguments writes_of {byte}.
Local Arguments uses {byte}.
Local Arguments well_ordered {byte}.
Local Arguments wo_b {byte}.
Local Arguments disjoint {byte}.
Local Arguments bounded {byte}.
Local Arguments all_owned {byte}.
Local Arguments system_ok {byte}.
Local Arguments cst {byte}.
Local Arguments cps {byte}.
Local Arguments Build_config {byte}.
Local Arguments exec_at {byte}.
Local Arguments exec {byte}.
Local Arguments trace {byte}.
Local Arguments finished {byte}.
Local Arguments stuck {byte}.
Local Arguments stuck_b {byte}.

Notation fresh byte := {| SeqWriter.turn := false; SeqWriter.dropped := false; SeqWriter.sent := @nil byte |}.

(* ================= 1. enabledness, exactly ================= *)
(* an operation of writer i is enabled iff writer i exists, is not dropped, and every earlier writer is dropped *)

Theorem c01_write_enabled_iff :
  forall (byte : Type) (ls : list (label byte)) (s : st byte) (i : nat) (d : list byte),
    run true init ls = Some s ->
    (step true s (Write i d) <> None <->
     exists w, nth_error (ws s) i = Some w /\ dropped w = false /\
       (forall k wk, k < i -> nth_error (ws s) k = Some wk -> dropped wk = true)).
Proof.
  intros byte ls s i d H. apply (enabled_iff byte s (Write i d) i); [|reflexivity].
  apply reachable_inv. exists ls; exact H.
Qed.
Print Assumptions c01_write_enabled_iff.

Theorem c01_flush_enabled_iff :
  forall (byte : Type) (ls : list (label byte)) (s : st byte) (i : nat),
    run true init ls = Some s ->
    (step true s (Flush i) <> None <->
     exists w, nth_error (ws s) i = Some w /\ dropped w = false /\
       (forall k wk, k < i -> nth_error (ws s) k = Some wk -> dropped wk = true)).
Proof.
  intros byte ls s i H. apply (enabled_iff byte s (Flush i) i); [|reflexivity].
  apply reachable_inv. exists ls; exact H.
Qed.
Print Assumptions c01_flush_enabled_iff.

Theorem c01_drop_enabled_iff :
  forall (byte : Type) (ls : list (label byte)) (s : st byte) (i : nat),
    run true init ls = Some s ->
    (step true s (DropW i) <> None <->
     exists w, nth_error (ws s) i = Some w /\ dropped w = false /\
       (forall k wk, k < i -> nth_error (ws s) k = Some wk -> dropped wk = true)).
Proof.
  intros byte ls s i H. apply (enabled_iff byte s (DropW i) i); [|reflexivity].
  apply reachable_inv. exists ls; exact H.
Qed.
Print Assumptions c01_drop_enabled_iff.

Theorem c01_new_always_enabled :
  forall (byte : Type) (s : st byte), exists s', step true s New = Some s'.
Proof. intros byte s. eexists. reflexivity. Qed.
Print Assumptions c01_new_always_enabled.

(* a disabled operation of an existing, undropped writer always has a blocker: the least undropped writer, which is
   earlier and whose own operations are all enabled *)
Theorem c01_blocked_has_blocker :
  forall (byte : Type) (s : st byte) (op : label byte) (i : nat) (w : wr byte),
    label_index op = Some i -> nth_error (ws s) i = Some w -> dropped w = false -> step true s op = None ->
    exists k wk, k < i /\ nth_error (ws s) k = Some wk /\ dropped wk = false /\
      (forall j wj, j < k -> nth_error (ws s) j = Some wj -> dropped wj = true) /\
      (forall d, step true s (Write k d) <> None) /\ step true s (Flush k) <> None /\ step true s (DropW k) <> None.
Proof.
  intros byte s op i w Hl Hi Hd Hn.
  destruct (blocked_has_blocker byte s op i w Hl Hi Hd Hn) as (k & wk & Hk & Hnk & Hdk & Hr).
  exists k, wk. repeat split; auto.
  - destruct Hr as (wk' & Hnk' & _ & Hb). exact Hb.
  - intros d. now apply (ready_step_some byte s (Write k d) k).
  - now apply (ready_step_some byte s (Flush k) k).
  - now apply (ready_step_some byte s (DropW k) k).
Qed.
Print Assumptions c01_blocked_has_blocker.

(* ================= 2. blocked is stable until the blocking predecessor is dropped ================= *)
(* (the hypothesis "step true s op = None" of the informal statement follows from the witness k, so it is a conclusion) *)

Theorem c01_blocked_stable_write :
  forall (byte : Type) (ls : list (label byte)) (s : st byte) (i : nat) (d : list byte) (k : nat) (wk : wr byte),
    run true init ls = Some s -> k < i -> nth_error (ws s) k = Some wk -> dropped wk = false ->
    step true s (Write i d) = None /\
    forall (l : label byte) (s' : st byte), step true s l = Some s' -> l <> DropW k ->
      (exists wk', nth_error (ws s') k = Some wk' /\ dropped wk' = false) /\ step true s' (Write i d) = None.
Proof.
  intros byte ls s i d k wk H. apply (blocked_stable byte s (Write i d) i k wk); [exists ls; exact H|reflexivity].
Qed.
Print Assumptions c01_blocked_stable_write.

Theorem c01_blocked_stable_flush :
  forall (byte : Type) (ls : list (label byte)) (s : st byte) (i : nat) (k : nat) (wk : wr byte),
    run true init ls = Some s -> k < i -> nth_error (ws s) k = Some wk -> dropped wk = false ->
    step true s (Flush i) = None /\
    forall (l : label byte) (s' : st byte), step true s l = Some s' -> l <> DropW k ->
      (exists wk', nth_error (ws s') k = Some wk' /\ dropped wk' = false) /\ step true s' (Flush i) = None.
Proof.
  intros byte ls s i k wk H. apply (blocked_stable byte s (Flush i) i k wk); [exists ls; exact H|reflexivity].
Qed.
Print Assumptions c01_blocked_stable_flush.

Theorem c01_blocked_stable_drop :
  forall (byte : Type) (ls : list (label byte)) (s : st byte) (i : nat) (k : nat) (wk : wr byte),
    run true init ls = Some s -> k < i -> nth_error (ws s) k = Some wk -> dropped wk = false ->
    step true s (DropW i) = None /\
    forall (l : label byte) (s' : st byte), step true s l = Some s' -> l <> DropW k ->
      (exists wk', nth_error (ws s') k = Some wk' /\ dropped wk' = false) /\ step true s' (DropW i) = None.
Proof.
  intros byte ls s i k wk H. apply (blocked_stable byte s (DropW i) i k wk); [exists ls; exact H|reflexivity].
Qed.
Print Assumptions c01_blocked_stable_drop.

(* the converse reading: the only step that can unblock an operation blocked by k is DropW k *)
Theorem c01_unblocked_only_by_drop :
  forall (byte : Type) (ls : list (label byte)) (s s' : st byte) (op l : label byte) (i k : nat) (wk : wr byte),
    run true init ls = Some s -> label_index op = Some i ->
    k < i -> nth_error (ws s) k = Some wk -> dropped wk = false ->
    step true s l = Some s' -> step true s' op <> None -> l = DropW k.
Proof.
  intros byte ls s s' op l i k wk H. apply unblocked_only_by_drop. exists ls; exact H.
Qed.
Print Assumptions c01_unblocked_only_by_drop.

(* ================= 3. effects, exactly ================= *)

Theorem c01_write_effect :
  forall (byte : Type) (s s' : st byte) (i : nat) (d : list byte),
    step true s (Write i d) = Some s' ->
    exists w, nth_error (ws s) i = Some w /\ dropped w = false /\
      ws s' = upd (ws s) i {| SeqWriter.turn := true; SeqWriter.dropped := false; SeqWriter.sent := sent w ++ d |} /\
      stream s' = stream s ++ d /\
      length (ws s') = length (ws s) /\
      nth_error (ws s') i = Some {| SeqWriter.turn := true; SeqWriter.dropped := false; SeqWriter.sent := sent w ++ d |} /\
      (forall j, j <> i -> nth_error (ws s') j = nth_error (ws s) j).
Proof. intros byte s s' i d. apply write_effect. Qed.
Print Assumptions c01_write_effect.

Theorem c01_flush_effect :
  forall (byte : Type) (s s' : st byte) (i : nat),
    step true s (Flush i) = Some s' ->
    exists w, nth_error (ws s) i = Some w /\ dropped w = false /\
      ws s' = upd (ws s) i {| SeqWriter.turn := true; SeqWriter.dropped := false; SeqWriter.sent := sent w |} /\
      stream s' = stream s /\
      length (ws s') = length (ws s) /\
      nth_error (ws s') i = Some {| SeqWriter.turn := true; SeqWriter.dropped := false; SeqWriter.sent := sent w |} /\
      (forall j, j <> i -> nth_error (ws s') j = nth_error (ws s) j).
Proof. intros byte s s' i. apply flush_effect. Qed.
Print Assumptions c01_flush_effect.

Theorem c01_drop_effect :
  forall (byte : Type) (s s' : st byte) (i : nat),
    step true s (DropW i) = Some s' ->
    exists w, nth_error (ws s) i = Some w /\ dropped w = false /\
      ws s' = upd (ws s) i {| SeqWriter.turn := true; SeqWriter.dropped := true; SeqWriter.sent := sent w |} /\
      stream s' = stream s /\
      length (ws s') = length (ws s) /\
      nth_error (ws s') i = Some {| SeqWriter.turn := true; SeqWriter.dropped := true; SeqWriter.sent := sent w |} /\
      (forall j, j <> i -> nth_error (ws s') j = nth_error (ws s) j).
Proof. intros byte s s' i. apply drop_effect. Qed.
Print Assumptions c01_drop_effect.

Theorem c01_new_effect :
  forall (byte : Type) (s s' : st byte),
    step true s New = Some s' ->
    ws s' = ws s ++ [fresh byte] /\ stream s' = stream s /\ length (ws s') = S (length (ws s)) /\
    nth_error (ws s') (length (ws s)) = Some (fresh byte) /\
    (forall j, j < length (ws s) -> nth_error (ws s') j = nth_error (ws s) j).
Proof. exact new_effect_full. Qed.
Print Assumptions c01_new_effect.

(* ================= 4. progress of well-ordered scripts ================= *)
(* A program (`prog`) is the list of labels of ONE thread. `well_ordered p` (Conc/SeqWriterPrograms.v): p has no `New`;
   if p = a ++ l :: b and l concerns writer j then every writer j' < j that p uses has its `DropW j'` in a; no label
   of p concerns a writer after that writer's `DropW`; p contains `DropW j` for every writer j it uses.
   `system_ok n progs`: every program well-ordered, different programs use disjoint writers, all used writers are < n,
   every writer < n is used by some program. A configuration (`config`) is a chain state `cst` plus the remaining
   suffixes `cps`; `exec_at c t` lets thread t execute its head label if the model enables it; `exec c sched` makes the
   moves of the threads listed in `sched`. *)

(* `well_ordered` is decidable: the checker used in the Examples below *)
Theorem c06_well_ordered_checker :
  forall (byte : Type) (p : prog byte), wo_b p = true <-> well_ordered p.
Proof. exact wo_b_spec. Qed.
Print Assumptions c06_well_ordered_checker.

(* moves are steps of the chain model: the labels executed along a schedule form a run *)
Theorem c06_moves_are_a_run :
  forall (byte : Type) (c c' : config byte) (sched : list nat),
    exec c sched = Some c' ->
    run true (cst c) (trace c sched) = Some (cst c') /\ length (trace c sched) = length sched.
Proof. intros byte c c' sched. apply exec_run. Qed.
Print Assumptions c06_moves_are_a_run.

(* after ANY sequence of moves either every program is finished or some program's head label is enabled *)
Theorem c06_well_ordered_never_stuck :
  forall (byte : Type) (n : nat) (progs : list (prog byte)) (s0 : st byte) (sched : list nat) (c : config byte),
    system_ok n progs -> run true init (repeat New n) = Some s0 ->
    exec {| cst := s0; cps := progs |} sched = Some c ->
    finished c \/ exists t c', exec_at c t = Some c'.
Proof.
  intros byte n progs s0 sched c Hok H0 H. destruct (cinv_start byte n progs s0 Hok H0) as (HI & _).
  exact (cinv_not_stuck byte n c (cinv_exec byte n sched _ c HI H)).
Qed.
Print Assumptions c06_well_ordered_never_stuck.

(* the same when the `New`s are a further program (thread 0) interleaved with the others, starting from `init` *)
Theorem c06_well_ordered_never_stuck_with_creation :
  forall (byte : Type) (n : nat) (progs : list (prog byte)) (sched : list nat) (c : config byte),
    system_ok n progs ->
    exec {| cst := init; cps := repeat New n :: progs |} sched = Some c ->
    finished c \/ exists t c', exec_at c t = Some c'.
Proof.
  intros byte n progs sched c Hok H. destruct (cinv_start_creation byte n progs Hok) as (HI & _).
  exact (cinv_not_stuck byte n c (cinv_exec byte n sched _ c HI H)).
Qed.
Print Assumptions c06_well_ordered_never_stuck_with_creation.

(* every move consumes one label: no sequence of moves is longer than the total number of labels (any programs) *)
Theorem c06_moves_bounded :
  forall (byte : Type) (c c' : config byte) (sched : list nat),
    exec c sched = Some c' -> length sched + length (concat (cps c')) = length (concat (cps c)).
Proof. intros byte c c' sched H. symmetry. exact (exec_size byte sched c c' H). Qed.
Print Assumptions c06_moves_bounded.

(* every sequence of moves can be extended to one that finishes all programs *)
Theorem c06_well_ordered_can_finish :
  forall (byte : Type) (n : nat) (progs : list (prog byte)) (s0 : st byte) (sched : list nat) (c : config byte),
    system_ok n progs -> run true init (repeat New n) = Some s0 ->
    exec {| cst := s0; cps := progs |} sched = Some c ->
    exists sched' c', exec c sched' = Some c' /\ finished c'.
Proof.
  intros byte n progs s0 sched c Hok H0 H. destruct (cinv_start byte n progs s0 Hok H0) as (HI & _).
  exact (cinv_can_finish byte n _ c eq_refl (cinv_exec byte n sched _ c HI H)).
Qed.
Print Assumptions c06_well_ordered_can_finish.

Theorem c06_well_ordered_can_finish_with_creation :
  forall (byte : Type) (n : nat) (progs : list (prog byte)) (sched : list nat) (c : config byte),
    system_ok n progs ->
    exec {| cst := init; cps := repeat New n :: progs |} sched = Some c ->
    exists sched' c', exec c sched' = Some c' /\ finished c'.
Proof.
  intros byte n progs sched c Hok H. destruct (cinv_start_creation byte n progs Hok) as (HI & _).
  exact (cinv_can_finish byte n _ c eq_refl (cinv_exec byte n sched _ c HI H)).
Qed.
Print Assumptions c06_well_ordered_can_finish_with_creation.

(* every maximal sequence of moves ends with all programs finished, after exactly (total number of labels) moves; then
   all n writers are dropped and the stream is, in writer order, what was written through each writer — which is what
   the program owning that writer writes through it *)
Theorem c06_well_ordered_terminates :
  forall (byte : Type) (n : nat) (progs : list (prog byte)) (s0 : st byte) (sched : list nat) (c : config byte),
    system_ok n progs -> run true init (repeat New n) = Some s0 ->
    exec {| cst := s0; cps := progs |} sched = Some c ->
    (forall t, exec_at c t = None) ->
    finished c /\
    length sched = length (concat progs) /\
    length (ws (cst c)) = n /\
    (forall j w, nth_error (ws (cst c)) j = Some w -> dropped w = true) /\
    stream (cst c) = concat (map (fun j => writes_of j (concat progs)) (seq 0 n)) /\
    (forall t p j, nth_error progs t = Some p -> uses p j -> writes_of j (concat progs) = writes_of j p).
Proof.
  intros byte n progs s0 sched c Hok H0 H Hmax. destruct (cinv_start byte n progs s0 Hok H0) as (HI & HW).
  destruct (cinv_maximal byte n _ _ sched c HI HW H Hmax) as (Hf & Hlen & Hn & Hd & Hs).
  repeat split; auto. intros t p j. apply writes_of_owner. exact (so_disjoint _ _ _ Hok).
Qed.
Print Assumptions c06_well_ordered_terminates.

Theorem c06_well_ordered_terminates_with_creation :
  forall (byte : Type) (n : nat) (progs : list (prog byte)) (sched : list nat) (c : config byte),
    system_ok n progs ->
    exec {| cst := init; cps := repeat New n :: progs |} sched = Some c ->
    (forall t, exec_at c t = None) ->
    finished c /\
    length sched = n + length (concat progs) /\
    length (ws (cst c)) = n /\
    (forall j w, nth_error (ws (cst c)) j = Some w -> dropped w = true) /\
    stream (cst c) = concat (map (fun j => writes_of j (concat progs)) (seq 0 n)) /\
    (forall t p j, nth_error progs t = Some p -> uses p j -> writes_of j (concat progs) = writes_of j p).
Proof.
  intros byte n progs sched c Hok H Hmax. destruct (cinv_start_creation byte n progs Hok) as (HI & HW).
  destruct (cinv_maximal byte n _ _ sched c HI HW H Hmax) as (Hf & Hlen & Hn & Hd & Hs).
  repeat split; auto.
  - rewrite Hlen. unfold size. cbn [cps concat]. now rewrite app_length, repeat_length.
  - intros t p j. apply writes_of_owner. exact (so_disjoint _ _ _ Hok).
Qed.
Print Assumptions c06_well_ordered_terminates_with_creation.

(* ================= 5. examples ================= *)

Ltac solve_used U :=
  apply uses_b_spec in U; cbn in U;
  repeat match type of U with context [?a =? ?j] => is_var j; destruct j as [|j]; cbn in U end;
  try discriminate; try lia.

(* --- a writer nobody owns blocks everything behind it: `all_owned` cannot be dropped from `system_ok` --- *)
Definition U1 : list (prog nat) := [[Write 1 [7]; DropW 1]].

Example c06_well_ordered_needs_all_owned :
  (forall p, In p U1 -> well_ordered p) /\ disjoint U1 /\ bounded 2 U1 /\ ~ all_owned 2 U1 /\
  exists s0, run true init (repeat New 2) = Some s0 /\ stuck {| cst := s0; cps := U1 |}.
Proof.
  split; [|split; [|split; [|split]]].
  - intros p [<-|[]]. apply wo_b_sound. vm_compute. reflexivity.
  - intros [|t1] [|t2] p1 p2 j H1 H2 _ _; cbn in H1, H2; auto; [destruct t2|destruct t1|destruct t1]; discriminate.
  - intros p j [<-|[]] U. destruct j as [|[|j]]; [lia|lia|]. solve_used U.
  - intros H. destruct (H 0 ltac:(lia)) as (p & [<-|[]] & U). solve_used U.
  - eexists. split; [reflexivity|]. apply stuck_b_spec. vm_compute. reflexivity.
Qed.
Print Assumptions c06_well_ordered_needs_all_owned.

(* --- a well-ordered system: 3 programs over 5 writers --- *)
Definition P0 : prog nat := [Write 0 [1]; Flush 0; DropW 0; Write 3 [4]; DropW 3].
Definition P1 : prog nat := [Write 1 [2]; DropW 1; DropW 4].
Definition P2 : prog nat := [Write 2 [3]; Write 2 [33]; Flush 2; DropW 2].
Definition S5 : list (prog nat) := [P0; P1; P2].

Example c06_example_system_ok : system_ok 5 S5.
Proof.
  constructor.
  - intros p [<-|[<-|[<-|[]]]]; apply wo_b_sound; vm_compute; reflexivity.
  - intros t1 t2 p1 p2 j H1 H2 V1 V2.
    destruct t1 as [|[|[|t1]]]; cbn in H1; try (destruct t1; discriminate); injection H1 as <-;
    (destruct t2 as [|[|[|t2]]]; cbn in H2; try (destruct t2; discriminate); injection H2 as <-);
    try reflexivity; exfalso; apply uses_b_spec in V1, V2;
    do 5 (destruct j as [|j]; [cbn in V1, V2; discriminate|]); cbn in V1; discriminate.
  - intros p j [<-|[<-|[<-|[]]]] V; apply uses_b_spec in V;
    do 5 (destruct j as [|j]; [lia|]); cbn in V; discriminate.
  - intros j Hj. destruct j as [|[|[|[|[|j]]]]]; [exists P0|exists P1|exists P2|exists P0|exists P1|lia];
    (split; [cbn; auto|apply uses_b_spec; vm_compute; reflexivity]).
Qed.
Print Assumptions c06_example_system_ok.

(* at the start only thread 0 can move; threads 1 and 2 are blocked by writer 0 *)
Example c06_example_start :
  match run true init (repeat New 5) with
  | Some s0 => map (fun t => match exec_at {| cst := s0; cps := S5 |} t with Some _ => true | None => false end) [0; 1; 2]
               = [true; false; false]
  | None => False
  end.
Proof. vm_compute. reflexivity. Qed.

(* a complete schedule: 12 moves, all writers dropped, the stream in writer order whatever the thread order *)
Example c06_example_complete :
  match run true init (repeat New 5) with
  | Some s0 =>
      match exec {| cst := s0; cps := S5 |} [0; 0; 0; 1; 1; 2; 2; 2; 2; 0; 0; 1] with
      | Some c => cps c = [[]; []; []] /\ stream (cst c) = [1; 2; 3; 33; 4] /\
                  map dropped (ws (cst c)) = [true; true; true; true; true] /\ stuck_b c = false
      | None => False
      end
  | None => False
  end.
Proof. vm_compute. repeat split. Qed.

(* with the creation interleaved: thread 0 creates, the others start as soon as their writer exists and is released *)
Example c06_example_complete_with_creation :
  match exec {| cst := init; cps := repeat New 5 :: S5 |} [0; 1; 1; 0; 1; 0; 2; 0; 2; 3; 3; 0; 3; 3; 1; 1; 2] with
  | Some c => cps c = [[]; []; []; []] /\ stream (cst c) = [1; 2; 3; 33; 4] /\
              map dropped (ws (cst c)) = [true; true; true; true; true]
  | None => False
  end.
Proof. vm_compute. repeat split. Qed.

(* --- a system that is NOT well-ordered and does get stuck: thread 0 touches writer 2 before dropping writer 0 --- *)
Definition B0 : prog nat := [Write 0 [1]; Write 2 [3]; DropW 0; DropW 2].
Definition B1 : prog nat := [Write 1 [2]; DropW 1].

Example c06_example_not_well_ordered_stuck :
  wo_b B0 = false /\ ~ well_ordered B0 /\ well_ordered B1 /\
  exists s0 c, run true init (repeat New 3) = Some s0 /\
    exec {| cst := s0; cps := [B0; B1] |} [0] = Some c /\
    stuck c /\ cps c = [[Write 2 [3]; DropW 0; DropW 2]; [Write 1 [2]; DropW 1]].
Proof.
  split; [vm_compute; reflexivity|]. split; [|split].
  - intros H. apply wo_b_complete in H. vm_compute in H. discriminate.
  - apply wo_b_sound. vm_compute. reflexivity.
  - do 2 eexists. split; [reflexivity|]. split; [reflexivity|].
    split; [apply stuck_b_spec; vm_compute; reflexivity|reflexivity].
Qed.
Print Assumptions c06_example_not_well_ordered_stuck.
