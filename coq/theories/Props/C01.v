(* Props/C01.v — responses leave a connection in request order and are never interleaved, whichever threads answer,
   write through the raw writer or drop the requests, in whatever order and at whatever moments.
   Statements only; proofs are in Conc/SeqWriter.v and Conc/SeqWriterFacts.v. The model is the sequential-writer
   chain of src/util/sequential.rs under ALL label sequences (any number of writers, any threads, any
   interleaving; `step … = None` means the calling thread blocks). `true` = the repaired tree (Drop waits for its
   turn), `false` = the tree as found. *)
From Coq Require Import List Arith Bool Lia.
Import ListNotations.
From TH Require Import Conc.SeqWriter Conc.SeqWriterFacts Conc.SeqWriterChan.

(* 1. on every reachable state the socket stream is the in-order concatenation of the per-writer blocks *)
Theorem c01_stream_is_ordered_concat :
  forall (byte : Type) (ls : list (label byte)) (s : st byte),
    run byte true (init byte) ls = Some s -> stream byte s = concat (map (sent byte) (ws byte s)).
Proof. exact ordered_not_interleaved. Qed.
Print Assumptions c01_stream_is_ordered_concat.

(* the block of writer i sits exactly behind the blocks of writers 0..i-1 *)
Theorem c01_writer_block_position :
  forall (byte : Type) (ls : list (label byte)) (s : st byte) (i : nat) (wi : wr byte),
    run byte true (init byte) ls = Some s -> nth_error (ws byte s) i = Some wi ->
    exists pre post, stream byte s = pre ++ sent byte wi ++ post /\
      pre = concat (map (sent byte) (firstn i (ws byte s))) /\
      post = concat (map (sent byte) (skipn (S i) (ws byte s))).
Proof.
  intros byte ls s i wi H Hi. do 2 eexists. split; [|split; reflexivity].
  apply stream_split; [apply reachable_inv; exists ls; exact H|exact Hi].
Qed.
Print Assumptions c01_writer_block_position.

(* all bytes of writer i precede all bytes of writer j for i < j *)
Theorem c01_blocks_ordered :
  forall (byte : Type) (ls : list (label byte)) (s : st byte) (i j : nat) (wi wj : wr byte),
    run byte true (init byte) ls = Some s -> i < j ->
    nth_error (ws byte s) i = Some wi -> nth_error (ws byte s) j = Some wj ->
    exists mid post,
      stream byte s = concat (map (sent byte) (firstn i (ws byte s))) ++ sent byte wi ++ mid ++ sent byte wj ++ post /\
      concat (map (sent byte) (firstn j (ws byte s))) = concat (map (sent byte) (firstn i (ws byte s))) ++ sent byte wi ++ mid.
Proof.
  intros byte ls s i j wi wj H. apply stream_blocks_ordered. apply reachable_inv. exists ls; exact H.
Qed.
Print Assumptions c01_blocks_ordered.

(* the block of writer i is exactly the data of the `Write i` labels of the run, in their order; hence the socket
   carries, for writer 0, 1, 2, … in this order, everything written through that writer *)
Theorem c01_block_is_what_was_written :
  forall (byte : Type) (fixed : bool) (ls : list (label byte)) (s : st byte) (i : nat) (w : wr byte),
    run byte fixed (init byte) ls = Some s -> nth_error (ws byte s) i = Some w ->
    sent byte w = writes_of byte i ls.
Proof. exact sent_is_writes. Qed.
Print Assumptions c01_block_is_what_was_written.

Theorem c01_stream_is_per_writer_data :
  forall (byte : Type) (ls : list (label byte)) (s : st byte),
    run byte true (init byte) ls = Some s ->
    stream byte s = concat (map (fun i => writes_of byte i ls) (seq 0 (length (ws byte s)))) /\
    length (ws byte s) = length (filter (is_new byte) ls).
Proof.
  intros byte ls s H. split; [exact (stream_is_per_writer_data byte ls s H)|exact (run_length byte true ls _ s H)].
Qed.
Print Assumptions c01_stream_is_per_writer_data.

(* 2. at most one writer is active (has taken its turn and is not yet dropped); everything before it is dropped,
   everything after it has not had the turn and has written nothing *)
Theorem c01_single_active :
  forall (byte : Type) (ls : list (label byte)) (s : st byte) (i : nat) (wi : wr byte),
    run byte true (init byte) ls = Some s ->
    nth_error (ws byte s) i = Some wi -> turn byte wi = true -> dropped byte wi = false ->
    (forall j wj, nth_error (ws byte s) j = Some wj -> turn byte wj = true -> dropped byte wj = false -> j = i) /\
    (forall k wk, k < i -> nth_error (ws byte s) k = Some wk -> dropped byte wk = true) /\
    (forall k wk, i < k -> nth_error (ws byte s) k = Some wk ->
       turn byte wk = false /\ dropped byte wk = false /\ sent byte wk = []).
Proof.
  intros byte ls s i wi H Hi Ht Hd.
  assert (HI : Inv byte s) by (apply reachable_inv; exists ls; exact H).
  assert (Ha : active byte wi = true) by (unfold active; rewrite Ht, Hd; reflexivity).
  split; [|split].
  - intros j wj Hj Htj Hdj. apply (single_active byte s j i wj wi HI Hj); auto. unfold active. now rewrite Htj, Hdj.
  - exact (active_before byte s i wi HI Hi Ha).
  - exact (active_after byte s i wi HI Hi Ha).
Qed.
Print Assumptions c01_single_active.

(* 3. nobody writes out of turn: a write succeeds only when all earlier writers were dropped; it appends to the
   stream and to the writer's own block and touches no other writer *)
Theorem c01_only_active_writes :
  forall (byte : Type) (ls : list (label byte)) (s s' : st byte) (i : nat) (d : list byte),
    run byte true (init byte) ls = Some s -> step byte true s (Write byte i d) = Some s' ->
    (forall j wj, j < i -> nth_error (ws byte s) j = Some wj -> dropped byte wj = true) /\
    (forall j, j <> i -> nth_error (ws byte s') j = nth_error (ws byte s) j) /\
    (exists w w', nth_error (ws byte s) i = Some w /\ nth_error (ws byte s') i = Some w' /\
       dropped byte w = false /\ sent byte w' = sent byte w ++ d /\ active byte w' = true) /\
    stream byte s' = stream byte s ++ d.
Proof.
  intros byte ls s s' i d H. apply only_active_writes. apply reachable_inv. exists ls; exact H.
Qed.
Print Assumptions c01_only_active_writes.

(* 4. progress. `least_undropped l = Some i` iff i is the smallest index of an undropped writer *)
Theorem c01_least_undropped_spec :
  forall (byte : Type) (l : list (wr byte)) (i : nat),
    least_undropped byte l = Some i <->
    (exists w, nth_error l i = Some w /\ dropped byte w = false) /\
    (forall k wk, k < i -> nth_error l k = Some wk -> dropped byte wk = true).
Proof.
  intros byte l i. split; [apply least_undropped_some|].
  intros ((w & Hi & Hd) & Hb). exact (least_undropped_intro byte l i w Hi Hd Hb).
Qed.
Print Assumptions c01_least_undropped_spec.

(* the least undropped writer is never blocked (in any state, reachable or not) *)
Theorem c01_least_undropped_enabled :
  forall (byte : Type) (s : st byte) (i : nat),
    least_undropped byte (ws byte s) = Some i ->
    (forall d, exists s', step byte true s (Write byte i d) = Some s') /\
    (exists s', step byte true s (Flush byte i) = Some s') /\
    (exists s', step byte true s (DropW byte i) = Some s').
Proof. exact least_undropped_enabled. Qed.
Print Assumptions c01_least_undropped_enabled.

(* from any reachable state whose least undropped writer is k: if writers k, k+1, …, n-1 are answered in this order,
   each by an arbitrary list of writes and flushes followed by its drop, the run never blocks, ends with every
   writer dropped, and appends the answers back to back *)
Theorem c01_arrival_order_no_deadlock :
  forall (byte : Type) (ls : list (label byte)) (s : st byte) (k : nat) (opss : list (list (op byte))),
    run byte true (init byte) ls = Some s ->
    least_undropped byte (ws byte s) = Some k -> length (ws byte s) = k + length opss ->
    exists s', run byte true s (arrival byte k opss) = Some s' /\
      stream byte s' = stream byte s ++ concat (map (data byte) opss) /\
      length (ws byte s') = length (ws byte s) /\
      least_undropped byte (ws byte s') = None.
Proof.
  intros byte ls s k opss H. apply arrival_order_no_deadlock. apply reachable_inv. exists ls; exact H.
Qed.
Print Assumptions c01_arrival_order_no_deadlock.

Theorem c01_arrival_order_from_start :
  forall (byte : Type) (opss : list (list (op byte))),
    exists s, run byte true (init byte) (repeat (New byte) (length opss) ++ arrival byte 0 opss) = Some s /\
      stream byte s = concat (map (data byte) opss) /\ length (ws byte s) = length opss /\
      least_undropped byte (ws byte s) = None.
Proof. exact arrival_from_start. Qed.
Print Assumptions c01_arrival_order_from_start.

(* the tree as found violated C01 (defect D1, repaired): a writer dropped without having waited for its turn
   releases its successor early *)
Theorem c01_asfound_refuted :
  exists ls s, run nat false (init nat) ls = Some s /\ stream nat s <> concat (map (sent nat) (ws nat s)).
Proof. exact unfixed_refuted. Qed.
Print Assumptions c01_asfound_refuted.

(* ---------- non-vacuity ---------- *)
Definition N3 : list (label nat) := [New nat; New nat; New nat].

(* three requests answered in the order 2, 0, 1: writer 2 is refused (the thread blocks) at first ... *)
Example c01_example_2_blocked_at_start :
  run nat true (init nat) (N3 ++ [Write nat 2 [5; 6]]) = None /\
  run nat true (init nat) (N3 ++ [Flush nat 2]) = None /\
  run nat true (init nat) (N3 ++ [DropW nat 2]) = None.
Proof. vm_compute. repeat split. Qed.

(* ... and still after writer 0 alone has answered and was dropped ... *)
Example c01_example_2_blocked_after_0 :
  run nat true (init nat) (N3 ++ [Write nat 0 [1; 2]; Flush nat 0; DropW nat 0; Write nat 2 [5; 6]]) = None.
Proof. vm_compute. reflexivity. Qed.

(* ... and goes through once 0 and 1 are dropped (1 itself interleaves with 0's thread but must wait for 0's drop);
   the stream is sent0 ++ sent1 ++ sent2 *)
Example c01_example_201 :
  match run nat true (init nat)
          (N3 ++ [Write nat 0 [1; 2]; Flush nat 0; DropW nat 0; Write nat 1 [3]; Write nat 1 [4]; DropW nat 1;
                  Write nat 2 [5; 6]; Flush nat 2; DropW nat 2]) with
  | Some s => stream nat s = [1; 2] ++ [3; 4] ++ [5; 6] /\ map (sent nat) (ws nat s) = [[1; 2]; [3; 4]; [5; 6]] /\
              least_undropped nat (ws nat s) = None
  | None => False
  end.
Proof. vm_compute. repeat split. Qed.

Example c01_example_1_waits_for_drop_of_0 :
  run nat true (init nat) (N3 ++ [Write nat 0 [1; 2]; Write nat 1 [3]]) = None.
Proof. vm_compute. reflexivity. Qed.

(* an active writer in the middle of a run: writer 1 is active, 0 is dropped, 2 and 3 are silent *)
Example c01_example_active :
  match run nat true (init nat) (N3 ++ [DropW nat 0; Write nat 1 [3]; New nat]) with
  | Some s => map (active nat) (ws nat s) = [false; true; false; false] /\ least_undropped nat (ws nat s) = Some 1
  | None => False
  end.
Proof. vm_compute. repeat split. Qed.

(* the hypotheses of c01_arrival_order_no_deadlock are met there: writers 1, 2, 3 are then answered in order *)
Example c01_example_arrival :
  match run nat true (init nat) (N3 ++ [DropW nat 0; Write nat 1 [3]; New nat]) with
  | Some s =>
      match run nat true s (arrival nat 1 [[OWrite nat [4]; OFlush nat]; []; [OWrite nat [7]; OWrite nat [8]]]) with
      | Some s' => stream nat s' = [3; 4; 7; 8]
      | None => False
      end
  | None => False
  end.
Proof. vm_compute. reflexivity. Qed.

(* ---------- the explicit one-message channel (header note of Conc/SeqWriter.v) ---------- *)
(* `step_chan` (Conc/SeqWriterChan.v) carries per writer `trig` (trigger still held) and `released` (the `()` message
   is in its channel; set by the predecessor's drop, consumed by the first write / flush / drop). It accepts exactly the
   same label sequences as `step true` and reaches the image under `abs` (released_i = dropped_{i-1} && ~turn_i,
   trig_i = 0<i && ~turn_i, same dropped / sent / stream) *)
Theorem c01_channel_refinement :
  forall (byte : Type) (ls : list (label byte)),
    run_chan byte (cinit byte) ls = option_map (abs byte) (run byte true (init byte) ls).
Proof. exact channel_refinement. Qed.
Print Assumptions c01_channel_refinement.

Theorem c01_channel_same_enabledness :
  forall (byte : Type) (ls : list (label byte)) (s : st byte) (l : label byte),
    run byte true (init byte) ls = Some s ->
    run_chan byte (cinit byte) ls = Some (abs byte s) /\
    (step byte true s l = None <-> step_chan byte (abs byte s) l = None) /\
    cstream byte (abs byte s) = stream byte s.
Proof. exact channel_same_enabledness. Qed.
Print Assumptions c01_channel_same_enabledness.

Example c01_example_channel :
  run_chan nat (cinit nat) (N3 ++ [Write nat 2 [5; 6]]) = None /\
  run_chan nat (cinit nat) (N3 ++ [DropW nat 1]) = None /\
  match run_chan nat (cinit nat) (N3 ++ [DropW nat 0]) with
  | Some c => map (released nat) (cws nat c) = [false; true; false] /\ map (trig nat) (cws nat c) = [false; true; true]
  | None => False end /\
  match run_chan nat (cinit nat)
          (N3 ++ [Write nat 0 [1; 2]; DropW nat 0; Write nat 1 [3; 4]; DropW nat 1; Write nat 2 [5; 6]; DropW nat 2; New nat]) with
  | Some c => cstream nat c = [1; 2; 3; 4; 5; 6] /\ map (released nat) (cws nat c) = [false; false; false; true]
  | None => False end.
Proof. vm_compute. repeat split. Qed.
