(* Props/C01.v — placeholder: restates the writer-chain theorem; extended as the proofs land. *)
From Coq Require Import List.
Import ListNotations.
From TH Require Import Conc.SeqWriter.
Theorem c01_stream_is_ordered_concat :
  forall (byte : Type) (ls : list (label byte)) (s : st byte),
    run byte true (init byte) ls = Some s -> stream byte s = concat (map (sent byte) (ws byte s)).
Proof. exact ordered_not_interleaved. Qed.
Print Assumptions c01_stream_is_ordered_concat.
Theorem c01_asfound_refuted :
  exists ls s, run nat false (init nat) ls = Some s /\ stream nat s <> concat (map (sent nat) (ws nat s)).
Proof. exact unfixed_refuted. Qed.
Print Assumptions c01_asfound_refuted.
