(* Props/C13.v — what the application receives depends only on the byte stream the client sent,
   never on how it was cut into segments (nor on what the BufReader happened to hold).
   States are BufReader-over-socket states (Http/ReaderOp.v); `contents` is the logical stream.
   Two states with equal contents and equal end-of-stream flags are "the same bytes, another
   segmentation / buffering".
   Pauses: the code sets no read timeout (no set_read_timeout / set_nonblocking anywhere in
   /repo/src), so the TimedOut => 408 arm of ClientConnection::next is unreachable and a pause has
   no representation: a reader with nothing pending waits (LBlock / SBBlock / EndBlock), and
   c13_read_line_pause_invariant says that the wait leaves no trace in the result. *)
From TH Require Import Base.Bytes Base.BytesFacts Http.Response Http.Request Http.Body Http.Serve
                       Http.ReaderOp Http.ReaderOpFacts Http.ReaderOpLimitedFacts Http.ReaderOpHeadFacts
                       Http.ReaderOpChunkFacts Http.ReaderOpChunkLoopFacts Http.ReaderOpChunkModelFacts
                       Http.C13Facts.
From Coq Require Import Lia.
Open Scope char_scope.

(* same_stream br1 br2 (Http/C13Facts.v) :=
     wf br1 /\ wf br2 /\ contents br1 = contents br2 /\ br_eof br1 = br_eof br2 *)

(* ---- the line reader (client.rs:80-102) ---- *)
Theorem c13_read_line_segmentation_invariant : forall br1 br2, same_stream br1 br2 ->
  fst (read_line_op br1) = fst (read_line_op br2) /\
  same_stream (snd (read_line_op br1)) (snd (read_line_op br2)).
Proof. exact read_line_invariant. Qed.
Print Assumptions c13_read_line_segmentation_invariant.

(* and the common value is the model's: Request.read_line of the logical stream *)
Theorem c13_read_line_agrees_with_model : forall br, wf br ->
  match read_line (contents br) with
  | Some (l, rest) => exists br', read_line_op br = (LLine l, br') /\ lands br br' rest
  | None => exists br' acc p, read_line_op br = (if br_eof br then LEof else LBlock acc p, br') /\
                              lands br br' [] /\
                              forall more, read_line (contents br ++ more) = read_line_aux acc p more
  end.
Proof. exact read_line_bridge. Qed.
Print Assumptions c13_read_line_agrees_with_model.

(* pauses: a reader that ran out of segments in the middle of a line and is resumed, with its
   locals, on the segments that arrive later returns what a reader that found all the segments
   there from the start returns *)
Theorem c13_read_line_pause_invariant : forall br acc p br1 segs, wf br ->
  Forall (fun g => g <> []) segs ->
  read_line_op br = (LBlock acc p, br1) ->
  exists br2,
    read_line_op_aux (br_fuel (br_feed segs br1)) acc p (br_feed segs br1)
      = (fst (read_line_op (br_feed segs br)), br2) /\
    same_stream br2 (snd (read_line_op (br_feed segs br))).
Proof. exact read_line_pause_invariant. Qed.
Print Assumptions c13_read_line_pause_invariant.

(* ---- the small-body loop of new_request ---- *)
Theorem c13_small_body_segmentation_invariant : forall n br1 br2, same_stream br1 br2 ->
  fst (read_small_body_op n br1) = fst (read_small_body_op n br2) /\
  same_stream (snd (read_small_body_op n br1)) (snd (read_small_body_op n br2)).
Proof. exact small_body_invariant. Qed.
Print Assumptions c13_small_body_segmentation_invariant.

(* the common value: firstn / skipn of the stream, as Serve.serve_loop has it for KBuffered *)
Theorem c13_small_body_agrees_with_model : forall n br, wf br ->
  if Nat.leb n (List.length (contents br))
  then exists br', read_small_body_op n br = (SBFull (firstn n (contents br)), br') /\
                   lands br br' (skipn n (contents br))
  else exists br', read_small_body_op n br =
                     (if br_eof br then SBEof (contents br) else SBBlock (contents br), br') /\
                   lands br br' [].
Proof. exact read_small_body_bridge. Qed.
Print Assumptions c13_small_body_agrees_with_model.

(* ---- EqualReader: the application's loop "read until m bytes or the end" ----
   br1/br2: two segmentations; sz1/sz2: two policies for the size of the buffer offered at each
   read (any function of the pieces obtained so far). The pieces may be cut differently, their
   concatenation, the way the loop ends, the count left and the stream left are the same. *)
Theorem c13_limited_segmentation_invariant : forall sz1 sz2 m rem br1 br2,
  same_stream br1 br2 -> (forall h, 0 < sz1 h) -> (forall h, 0 < sz2 h) ->
  exists acc1 acc2 en rem' br1' br2',
    limited_take sz1 m rem br1 = Some (acc1, en, rem', br1') /\
    limited_take sz2 m rem br2 = Some (acc2, en, rem', br2') /\
    pieces_bytes acc1 = pieces_bytes acc2 /\ same_stream br1' br2'.
Proof. exact limited_take_invariant. Qed.
Print Assumptions c13_limited_segmentation_invariant.

(* the common value is the first min(m, rem) bytes of the stream when they are there ... *)
Theorem c13_limited_firstn : forall sz m rem br, wf br -> (forall h, 0 < sz h) ->
  (N.min m rem <= len (contents br))%N ->
  exists acc' br', limited_take sz m rem br =
                     Some (acc', if (m <=? rem)%N then EndCount else EndEof, (rem - N.min m rem)%N, br') /\
                   pieces_bytes acc' = firstn (N.to_nat (N.min m rem)) (contents br) /\
                   lands br br' (skipn (N.to_nat (N.min m rem)) (contents br)).
Proof. exact limited_take_firstn. Qed.
Print Assumptions c13_limited_firstn.

(* ... and in every case what the full-read loop Body.take of the model obtains *)
Theorem c13_limited_agrees_with_model : forall c sz n m rem br al,
  wf br -> (forall h, 0 < sz h) -> 0 < n ->
  exists acc1 en rem1 br' acc2 r' al',
    limited_take sz m rem br = Some (acc1, en, rem1, br') /\
    take c (S (List.length (contents br))) m n (BLimited rem) (st_of br) al []
      = (acc2, en, r', st_of br', al') /\
    pieces_bytes acc1 = pieces_bytes acc2 /\
    (r' = BLimited rem1 \/ r' = BEmpty) /\ wf br'.
Proof. exact limited_take_agrees_with_model. Qed.
Print Assumptions c13_limited_agrees_with_model.

(* EqualReader::drop leaves the stream at the same place for every segmentation *)
Theorem c13_limited_discard_segmentation_invariant : forall c rem br1 br2, same_stream br1 br2 ->
  exists br1' br2', limited_discard_op c (br_fuel br1) rem br1 = Some br1' /\
                    limited_discard_op c (br_fuel br2) rem br2 = Some br2' /\
                    same_stream br1' br2' /\ contents br1' = skipn (N.to_nat rem) (contents br1).
Proof. exact limited_discard_invariant. Qed.
Print Assumptions c13_limited_discard_segmentation_invariant.

(* ---- a whole head (client.rs:106-137) ---- *)
Theorem c13_head_segmentation_invariant : forall c br1 br2, same_stream br1 br2 ->
  fst (read_head_op c br1) = fst (read_head_op c br2) /\
  same_stream (snd (read_head_op c br1)) (snd (read_head_op c br2)).
Proof. exact head_invariant. Qed.
Print Assumptions c13_head_segmentation_invariant.

(* the common value is Request.read_head of the logical stream, result and remaining stream *)
Theorem c13_head_agrees_with_model : forall c br, wf br ->
  exists br', read_head_op c br = (head_op_of (read_head c (contents br)) (br_eof br), br') /\
              wf br' /\ br_eof br' = br_eof br /\
              match read_head c (contents br) with
              | HeadOk _ _ _ _ rest => contents br' = rest
              | HeadEof => contents br' = []
              | _ => True
              end.
Proof. exact read_head_bridge. Qed.
Print Assumptions c13_head_agrees_with_model.

(* ---- head, framing and pre-read body of one request ---- *)
Theorem c13_small_request_segmentation_invariant : forall c br1 br2, same_stream br1 br2 ->
  fst (read_small_request_op c br1) = fst (read_small_request_op c br2) /\
  same_stream (snd (read_small_request_op c br1)) (snd (read_small_request_op c br2)).
Proof. exact small_request_invariant. Qed.
Print Assumptions c13_small_request_segmentation_invariant.

Theorem c13_small_request_agrees_with_model : forall c br m url ver hs rest n bl ex, wf br ->
  read_head c (contents br) = HeadOk m url ver hs rest ->
  framing c hs = FrOk (KBuffered n) bl ex ->
  (n <= len rest)%N ->
  exists br', read_small_request_op c br = (RqOk m url ver hs (firstn (N.to_nat n) rest), br') /\
              lands br br' (skipn (N.to_nat n) rest).
Proof. exact read_small_request_bridge. Qed.
Print Assumptions c13_small_request_agrees_with_model.

(* a request without body (KEmpty) *)
Theorem c13_empty_request_agrees_with_model : forall c br m url ver hs rest bl ex, wf br ->
  read_head c (contents br) = HeadOk m url ver hs rest ->
  framing c hs = FrOk KEmpty bl ex ->
  exists br', read_small_request_op c br = (RqOk m url ver hs [], br') /\ lands br br' rest.
Proof. exact read_empty_request_bridge. Qed.
Print Assumptions c13_empty_request_agrees_with_model.

(* ---- the whole sequence of requests of a connection (requests without body or with a pre-read
   body, until one closes the connection or something else is met): heads, bodies, the reason the
   sequence ends and the stream left are the same; the loop's fuel never runs out ---- *)
Theorem c13_requests_segmentation_invariant : forall c br1 br2, same_stream br1 br2 ->
  fst (read_requests c br1) = fst (read_requests c br2) /\
  same_stream (snd (read_requests c br1)) (snd (read_requests c br2)) /\
  ~ In RqFuel (fst (read_requests c br1)).
Proof. exact requests_invariant. Qed.
Print Assumptions c13_requests_segmentation_invariant.

(* ---- chunked_transfer::Decoder: the chunk-size line is read byte-wise ---- *)
Theorem c13_chunk_size_agrees_with_model : forall br, wf br ->
  read_chunk_size (st_of br) = (fst (read_chunk_size_op br), st_of (snd (read_chunk_size_op br))) /\
  wf (snd (read_chunk_size_op br)).
Proof. intros br Hwf. destruct (read_chunk_size_agrees br Hwf) as (A & B & _). auto. Qed.
Print Assumptions c13_chunk_size_agrees_with_model.

(* ---- chunked_transfer::Decoder: the application's loop "read until m bytes or the end" ----
   dec_fn (Http/ReaderOpChunkLoopFacts.v) is that loop as a function of the logical stream. It is
   DFOk F or DFTorn, never out of fuel (c13_chunked_determinate_or_torn). DFTorn = a chunk whose
   payload is complete in the stream but is not followed by CR LF: then the property is FALSE for
   the real code (c13_chunked_torn_counterexample below, confirmed on the crate: the same bytes give
   the application "" or "he" before the same error). In every other case: *)
Theorem c13_chunked_segmentation_invariant : forall sz1 sz2 m rem br1 br2 F,
  same_stream br1 br2 -> (forall h, 0 < sz1 h) -> (forall h, 0 < sz2 h) -> rem <> Some 0%N ->
  dec_fn (S (List.length (contents br1))) m rem (contents br1) (br_eof br1) = DFOk F ->
  exists acc1 acc2 br1' br2',
    dec_take sz1 m rem br1 = Some (acc1, dt_end F, dt_rem F, br1') /\
    dec_take sz2 m rem br2 = Some (acc2, dt_end F, dt_rem F, br2') /\
    pieces_bytes acc1 = dt_got F /\ pieces_bytes acc2 = dt_got F /\ same_stream br1' br2'.
Proof. exact dec_take_invariant. Qed.
Print Assumptions c13_chunked_segmentation_invariant.

Theorem c13_chunked_determinate_or_torn : forall m rem x e, rem <> Some 0%N ->
  (exists F, dec_fn (S (List.length x)) m rem x e = DFOk F) \/ dec_fn (S (List.length x)) m rem x e = DFTorn.
Proof. exact dec_fn_determinate_or_torn. Qed.
Print Assumptions c13_chunked_determinate_or_torn.

(* and the common value is what the full-read loop of the model, Body.take over BChunked, obtains *)
Theorem c13_chunked_agrees_with_model : forall c sz n m rem br al F,
  wf br -> (forall h, 0 < sz h) -> 0 < n -> rem <> Some 0%N ->
  dec_fn (S (List.length (contents br))) m rem (contents br) (br_eof br) = DFOk F ->
  exists acc1 br' acc2,
    dec_take sz m rem br = Some (acc1, dt_end F, dt_rem F, br') /\
    take c (S (List.length (contents br))) m n (BChunked rem false) (st_of br) al []
      = (acc2, dt_end F, chunked_reader_after c F, st_of br', al) /\
    pieces_bytes acc1 = pieces_bytes acc2 /\ pieces_bytes acc1 = dt_got F /\ wf br'.
Proof. exact dec_take_agrees_with_model. Qed.
Print Assumptions c13_chunked_agrees_with_model.

(* ---------------------------------- Examples ---------------------------------- *)
(* a request with a 5-byte body, followed by the beginning of the next request *)
Definition c13_stream : bytes :=
  s "POST /a HTTP/1.1" ++ CRLF ++ s "Content-Length: 5" ++ CRLF ++ CRLF ++ s "hello" ++ s "GET /b".

Definition c13_one_segment : bufreader := br_init [c13_stream] false.
Definition c13_byte_segments : bufreader := br_init (map (fun b => [b]) c13_stream) false.
(* the first segment ends between the CR and the LF of the request line, the second inside the body *)
Definition c13_split_crlf : bufreader :=
  br_init [s "POST /a HTTP/1.1" ++ [CR];
           [LF] ++ s "Content-Length: 5" ++ CRLF ++ CRLF ++ s "he";
           s "lloGET /b"] false.
(* part of the stream already sits in the BufReader (left there by the previous request) *)
Definition c13_buffered : bufreader :=
  mkBR (s "POST /a HT") (mkSrc [s "TP/1.1" ++ CRLF ++ s "Content-Length: 5" ++ CRLF ++ CRLF ++ s "hel"; s "loGET /b"] false).

Example c13_example_same_stream :
  same_stream c13_one_segment c13_byte_segments /\ same_stream c13_one_segment c13_split_crlf /\
  same_stream c13_one_segment c13_buffered.
Proof.
  assert (Wb : wf c13_buffered) by (repeat constructor; discriminate).
  unfold same_stream. repeat split; try apply wf_br_init; try exact Wb; vm_compute; reflexivity.
Qed.

Definition c13_expected : req_op :=
  RqOk (s "POST") (s "/a") (1, 1)%N [mkH (s "Content-Length") (s "5")] (s "hello").

Example c13_example_request :
  let r1 := read_small_request_op fixed c13_one_segment in
  let r2 := read_small_request_op fixed c13_byte_segments in
  let r3 := read_small_request_op fixed c13_split_crlf in
  let r4 := read_small_request_op fixed c13_buffered in
  fst r1 = c13_expected /\ fst r2 = c13_expected /\ fst r3 = c13_expected /\ fst r4 = c13_expected /\
  contents (snd r1) = s "GET /b" /\ contents (snd r2) = s "GET /b" /\
  contents (snd r3) = s "GET /b" /\ contents (snd r4) = s "GET /b".
Proof. vm_compute. repeat split; reflexivity. Qed.

(* the model on the logical stream says the same *)
Example c13_example_model :
  read_head fixed c13_stream =
    HeadOk (s "POST") (s "/a") (1, 1)%N [mkH (s "Content-Length") (s "5")] (s "helloGET /b") /\
  framing fixed [mkH (s "Content-Length") (s "5")] = FrOk (KBuffered 5) (Some 5%N) false.
Proof. vm_compute. split; reflexivity. Qed.

(* a single read is NOT invariant (it may be short): only loops are. EqualReader with 5 bytes left
   and a 10-byte buffer, positioned at the body *)
Example c13_example_short_read :
  let one := br_init [s "helloGET /b"] false in
  let bytewise := br_init (map (fun b => [b]) (s "helloGET /b")) false in
  fst (fst (limited_read_op 10 5 one)) = OData (s "hello") /\
  fst (fst (limited_read_op 10 5 bytewise)) = OData (s "h") /\
  (* the loops agree, with different buffer-size policies on top *)
  option_map (fun r => (pieces_bytes (fst (fst (fst r))), snd (fst (fst r)), snd (fst r), contents (snd r)))
             (limited_take (fun _ => 10) 100 5 one) = Some (s "hello", EndEof, 0%N, s "GET /b") /\
  option_map (fun r => (pieces_bytes (fst (fst (fst r))), snd (fst (fst r)), snd (fst r), contents (snd r)))
             (limited_take (fun h => S (List.length h)) 100 5 bytewise) = Some (s "hello", EndEof, 0%N, s "GET /b").
Proof. vm_compute. repeat split; reflexivity. Qed.

(* a pause inside the request line: the reader waits with its locals, and goes on when the rest arrives *)
Example c13_example_pause :
  let br := br_init [s "POST /a HT"] false in
  let rest := [s "TP/1.1" ++ [CR]; [LF] ++ s "Host: x"] in
  match read_line_op br with
  | (LBlock acc p, br1) =>
      fst (read_line_op_aux (br_fuel (br_feed rest br1)) acc p (br_feed rest br1)) = LLine (s "POST /a HTTP/1.1") /\
      fst (read_line_op (br_feed rest br)) = LLine (s "POST /a HTTP/1.1")
  | _ => False
  end.
Proof. vm_compute. split; reflexivity. Qed.

(* ---- chunked bodies ---- *)
Definition c13_show (r : option (list bytes * read_end * option N * bufreader)) :=
  option_map (fun r => (pieces_bytes (fst (fst (fst r))), snd (fst (fst r)), snd (fst r), contents (snd r))) r.

Definition c13_chunked : bytes :=
  s "5" ++ CRLF ++ s "hello" ++ CRLF ++ s "3;x=y" ++ CRLF ++ s "abc" ++ CRLF ++ s "0" ++ CRLF ++ CRLF ++ s "GET".

(* the hypothesis of c13_chunked_segmentation_invariant holds, and the loops give F *)
Example c13_example_chunked :
  dec_fn (S (List.length c13_chunked)) 100 None c13_chunked false
    = DFOk (mkDT (s "helloabc") EndEof None (s "GET")) /\
  c13_show (dec_take (fun _ => 10) 100 None (br_init [c13_chunked] false))
    = Some (s "helloabc", EndEof, None, s "GET") /\
  c13_show (dec_take (fun h => S (List.length h)) 100 None (br_init (map (fun b => [b]) c13_chunked) false))
    = Some (s "helloabc", EndEof, None, s "GET") /\
  c13_show (dec_take (fun _ => 3) 100 None (br_init [s "5" ++ CRLF ++ s "he"; s "llo" ++ [CR]; [LF] ++ s "3;x=y" ++ CRLF ++ s "abc" ++ CRLF ++ s "0" ++ CRLF ++ CRLF ++ s "GET"] false))
    = Some (s "helloabc", EndEof, None, s "GET").
Proof. vm_compute. repeat split; reflexivity. Qed.

(* COUNTER-EXAMPLE for malformed chunked bodies: a 5-byte chunk followed by "XX" instead of CR LF.
   One segment: the read that takes "hello" also finds the missing CR and returns Err; the
   application has obtained nothing. Two segments "5\r\nhe" | "lloXX": the first read returns "he",
   the second consumes "llo", finds the missing CR and returns Err; the application has obtained
   "he". Same bytes, different observation (a handler that echoes what it read answers
   differently). This is the real behaviour of chunked_transfer 1.5.0 under tiny-http (checked
   end-to-end). dec_fn classifies the stream as DFTorn; the model on the logical stream
   (full reads) shows the one-segment behaviour. *)
Definition c13_torn : bytes := s "5" ++ CRLF ++ s "helloXX".
Example c13_chunked_torn_counterexample :
  c13_show (dec_take (fun _ => 10) 100 None (br_init [c13_torn] true))
    = Some ([], EndErr, None, s "X") /\
  c13_show (dec_take (fun _ => 10) 100 None (br_init [s "5" ++ CRLF ++ s "he"; s "lloXX"] true))
    = Some (s "he", EndErr, Some 3%N, s "X") /\
  same_stream (br_init [c13_torn] true) (br_init [s "5" ++ CRLF ++ s "he"; s "lloXX"] true) /\
  dec_fn (S (List.length c13_torn)) 100 None c13_torn true = DFTorn /\
  (let '(a, e, r, st, al) := take fixed 100 100 10 (BChunked None false) (mkS c13_torn true) [] [] in
   (pieces_bytes a, e, sbytes st)) = ([], EndErr, s "X").
Proof.
  split; [vm_compute; reflexivity|]. split; [vm_compute; reflexivity|].
  split; [apply same_stream_br_init; vm_compute; reflexivity|].
  split; vm_compute; reflexivity.
Qed.

(* ---- a pipelined connection: three requests, cut at awkward places ---- *)
Definition c13_pipeline : bytes :=
  s "POST /a HTTP/1.1" ++ CRLF ++ s "Content-Length: 5" ++ CRLF ++ CRLF ++ s "hello" ++
  s "GET /b HTTP/1.1" ++ CRLF ++ s "Host: x" ++ CRLF ++ CRLF ++
  s "GET /c HTTP/1.0" ++ CRLF ++ CRLF.
Definition c13_pipeline_expected : list req_op :=
  [RqOk (s "POST") (s "/a") (1, 1)%N [mkH (s "Content-Length") (s "5")] (s "hello");
   RqOk (s "GET") (s "/b") (1, 1)%N [mkH (s "Host") (s "x")] [];
   RqOk (s "GET") (s "/c") (1, 0)%N [] []].
Example c13_example_pipeline :
  fst (read_requests fixed (br_init [c13_pipeline] false)) = c13_pipeline_expected /\
  fst (read_requests fixed (br_init (map (fun b => [b]) c13_pipeline) false)) = c13_pipeline_expected /\
  fst (read_requests fixed (br_init [firstn 41 c13_pipeline; firstn 7 (skipn 41 c13_pipeline); skipn 48 c13_pipeline] false))
    = c13_pipeline_expected /\
  (* the same stream without its last byte: the third request is not complete, the server waits *)
  fst (read_requests fixed (br_init [removelast c13_pipeline] false))
    = firstn 2 c13_pipeline_expected ++ [RqHead HOpBlock].
Proof. vm_compute. repeat split; reflexivity. Qed.
