(* Props/C06Check.v — the computable checker the driver applies to the scripts of the scheduled writer-chain runs
   (`sws` cases marked live=1) is sound: whatever `system_ok_b` accepts is a well-ordered system, so by
   Props/C01Lockstep.v such a script can never get stuck, whatever the schedule, and every maximal run drops every
   writer. The check demands exactly that of the real chain (nothing left blocked at the end of the run). *)
From Coq Require Import List Arith Bool Lia.
Import ListNotations.
From TH Require Import Conc.SeqWriter Conc.SeqWriterFacts Conc.SeqWriterStepFacts Conc.SeqWriterPrograms
  Conc.SeqWriterProgress Conc.SeqWriterCheck Props.C01Lockstep.

Theorem c06_checker_sound :
  forall (byte : Type) (n : nat) (progs : list (prog byte)),
    system_ok_b byte n progs = true -> system_ok byte n progs.
Proof. exact system_ok_b_sound. Qed.
Print Assumptions c06_checker_sound.

Theorem c06_checked_scripts_never_stuck :
  forall (byte : Type) (n : nat) (progs : list (prog byte)) (sched : list nat) (c : config byte),
    system_ok_b byte n progs = true ->
    exec byte {| cst := init byte; cps := repeat (New byte) n :: progs |} sched = Some c ->
    finished byte c \/ exists t c', exec_at byte c t = Some c'.
Proof.
  intros byte n progs sched c H. apply c06_well_ordered_never_stuck_with_creation. now apply system_ok_b_sound.
Qed.
Print Assumptions c06_checked_scripts_never_stuck.

(* non-vacuity: the checker accepts the three-thread system of C01Lockstep's example and rejects the one that gets stuck
   and the one with an unowned writer *)
Example c06_checker_examples :
  sw_system_ok_b 5 [[Write nat 0 [1]; Flush nat 0; DropW nat 0; Write nat 3 [4]; DropW nat 3];
                    [Write nat 1 [2]; DropW nat 1; DropW nat 4];
                    [Write nat 2 [3]; Write nat 2 [33]; Flush nat 2; DropW nat 2]] = true /\
  sw_system_ok_b 3 [[Write nat 0 [1]; Write nat 2 [3]; DropW nat 0; DropW nat 2]; [Write nat 1 [2]; DropW nat 1]] = false /\
  sw_system_ok_b 2 [[Write nat 1 [7]; DropW nat 1]] = false /\
  sw_system_ok_b 2 [[Write nat 0 [7]; DropW nat 0]; [DropW nat 1]; [Flush nat 0]] = false.
Proof. vm_compute. repeat split. Qed.
