(* Props/C02.v — request head fidelity (head side): every well-formed HTTP/0.9, 1.0 or 1.1 request head
   (Http/HeadFacts.v: req_head, wf_head, render_req_head), written with arbitrary optional whitespace
   around each field value and followed by arbitrary bytes, is parsed by the repaired tree into
   exactly the method, target, version and header list that were sent. *)
From TH Require Import Base.Bytes Http.Response Http.Request Http.LineFacts Http.HeadFacts.
Open Scope char_scope.

Theorem c02_head_roundtrip : forall (r : req_head) (ows : list (bytes * bytes)) (tail : bytes),
  wf_head r = true -> wf_ows ows = true ->
  read_head fixed (render_req_head r ows ++ tail)
  = HeadOk (rq_method r) (rq_target r) (rq_version r)
           (map (fun f => mkH (fst f) (snd f)) (rq_headers r)) tail.
Proof. exact head_roundtrip. Qed.
Print Assumptions c02_head_roundtrip.

(* nothing is normalised or merged: what is delivered determines the request that was sent
   (and where its head ended), whatever the optional whitespace was *)
Theorem c02_no_normalisation : forall r1 r2 o1 o2 t1 t2,
  wf_head r1 = true -> wf_head r2 = true -> wf_ows o1 = true -> wf_ows o2 = true ->
  read_head fixed (render_req_head r1 o1 ++ t1) = read_head fixed (render_req_head r2 o2 ++ t2) ->
  r1 = r2 /\ t1 = t2.
Proof. exact head_no_normalisation. Qed.
Print Assumptions c02_no_normalisation.

(* the hypotheses are satisfiable: three headers with a duplicate name, an empty value, a value with
   inner blanks and colons, optional whitespace with tabs, percent-escapes left alone *)
Definition c02_req : req_head :=
  mkRq (s "PoST") (s "/a%20b/../c?x=1&y=%2F#f") (1, 1)%N
       [(s "X-Dup", s "one:  two : three"); (s "x-dup", []); (s "Host", s "EXAMPLE.org:80")].
Definition c02_ows : list (bytes * bytes) :=
  [([SP; HT], [HT]); ([HT; HT; SP], [SP]); ([], [])].
Example c02_example_wf : wf_head c02_req = true /\ wf_ows c02_ows = true.
Proof. vm_compute. split; reflexivity. Qed.
Example c02_example_rendering :
  render_req_head c02_req c02_ows =
  s "PoST /a%20b/../c?x=1&y=%2F#f HTTP/1.1" ++ CRLF ++
  s "X-Dup:" ++ [SP; HT] ++ s "one:  two : three" ++ [HT] ++ CRLF ++
  s "x-dup:" ++ [HT; HT; SP; SP] ++ CRLF ++
  s "Host:EXAMPLE.org:80" ++ CRLF ++ CRLF.
Proof. vm_compute. reflexivity. Qed.
Example c02_example_read :
  read_head fixed (render_req_head c02_req c02_ows ++ s "BODY")
  = HeadOk (s "PoST") (s "/a%20b/../c?x=1&y=%2F#f") (1, 1)%N
           [mkH (s "X-Dup") (s "one:  two : three"); mkH (s "x-dup") []; mkH (s "Host") (s "EXAMPLE.org:80")]
           (s "BODY").
Proof. vm_compute. reflexivity. Qed.

(* why wf_value speaks of whitespace rather than of SP/HTAB only: str::trim also removes VT and FF,
   which are not field-content bytes in the first place *)
Example c02_vt_is_trimmed :
  read_head fixed (s "GET / HTTP/1.1" ++ CRLF ++ s "A: " ++ ["011"; "x"] ++ CRLF ++ CRLF)
  = HeadOk (s "GET") (s "/") (1, 1)%N [mkH (s "A") (s "x")] [].
Proof. vm_compute. reflexivity. Qed.

(* ---- what the application is handed: a run of well-formed requests without a body that keep the
   connection alive (quiet_run, Http/ServeGoodFacts.v) is delivered request by request exactly as
   sent, in order, nothing added — whatever the handler does with each of them ---- *)
From TH Require Import Http.Body Http.Serve Http.ServeGoodFacts.
Theorem c02_delivered_as_sent : forall date script dflt eof goods x,
  quiet_run goods = true -> read_head fixed x = HeadEof ->
  exists w ds ok', Forall2 delivered_as (map fst goods) ds /\
    serve fixed date script dflt (render_run goods ++ x) eof
    = mkO ds w (if eof then CClosed else COpen) [] ok'.
Proof. exact serve_run_then_eof. Qed.
Print Assumptions c02_delivered_as_sent.

Example c02_example_quiet : quiet_run [(c02_req, c02_ows); (c02_req, [])] = true /\ read_head fixed [] = HeadEof.
Proof. vm_compute. split; reflexivity. Qed.
