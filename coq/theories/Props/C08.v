(* Props/C08.v — connections are isolated: none waits for another; one worker per connection.
   Statements only; proofs are in Conc/TaskPool.v and Conc/TaskPoolFacts.v (all label sequences: any number of workers,
   dispatch bursts, wake-up orders; tasks need never finish). *)
From Coq Require Import List Arith Lia.
Import ListNotations.
From Coq Require Import Permutation.
From TH Require Import Conc.TaskPool Conc.TaskPoolFacts.

(* in every reachable state of the repaired pool every queued task (accepted connection) has its own
   awake worker: no queued connection ever needs another connection to end (no TaskDone label) *)
Theorem c08_queued_task_has_awake_worker :
  forall (task : Type) (MIN IDLE BIG : nat), MIN < BIG ->
  forall (ls : list (label task)) (s : st task),
    run task MIN IDLE BIG true (init task MIN) ls = Some s ->
    length (todo task s) <= count task (is_woken task) (ws task s).
Proof. exact queued_task_has_awake_worker. Qed.
Print Assumptions c08_queued_task_has_awake_worker.

(* an awake worker's next step is always enabled and starts the head of the queue *)
Theorem c08_woken_takes_head :
  forall (task : Type) (MIN IDLE BIG : nat), MIN < BIG ->
  forall (s : st task) (w : nat) (r : bool) (tk : task) (rest : list task),
    nth_error (ws task s) w = Some (Woken task r) -> todo task s = tk :: rest ->
    exists s', step task MIN IDLE BIG true s (Resume task w) = Some s' /\
               nth_error (ws task s') w = Some (Running task tk) /\ todo task s' = rest.
Proof. exact woken_takes_head. Qed.
Print Assumptions c08_woken_takes_head.

(* the tree as found violated it (defect D3, repaired): 4 idle workers, 5 dispatches before any of
   them resumes: task 5 is queued, nobody is awake or idle, the other four tasks never end *)
Theorem c08_asfound_refuted :
  exists ls s, run nat 4 5 99 false (init nat 4) ls = Some s /\
    todo nat s = [5] /\ count nat (is_woken nat) (ws nat s) = 0 /\ count nat (is_blocked nat) (ws nat s) = 0.
Proof. exact asfound_stranded. Qed.
Print Assumptions c08_asfound_refuted.

(* non-vacuity: the same burst on the repaired pool: the fifth dispatch creates a new worker *)
Example c08_example_repaired :
  match run nat 4 5 99 true (init nat 4)
      [Start nat 0; Start nat 1; Start nat 2; Start nat 3; Lock nat 0; Lock nat 1; Lock nat 2; Lock nat 3;
       Dispatch nat 1 (Some 0); Dispatch nat 2 (Some 1); Dispatch nat 3 (Some 2); Dispatch nat 4 (Some 3); Dispatch nat 5 None;
       Resume nat 0; Resume nat 1; Resume nat 2; Resume nat 3; Start nat 4] with
  | Some s => todo nat s = [] /\ started nat s = [1; 2; 3; 4; 5]
  | None => False
  end.
Proof. vm_compute. split; reflexivity. Qed.

(* ---- exactly one worker per accepted connection (proofs: Conc/TaskPoolFacts.v) ----
   `dispatched ls` lists the task identifiers of the Dispatch labels of ls (TaskPool::spawn calls);
   `held l` lists the tasks carried by freshly created threads that have not started them yet
   (workers in state Spawned (Some tk)); `started s` is the log of task starts kept by the model. *)
Theorem c08_held_spec :
  forall (task : Type) (l : list (wstate task)) (tk : task),
    In tk (held task l) <-> exists w, nth_error l w = Some (Spawned task (Some tk)).
Proof. exact held_In. Qed.
Print Assumptions c08_held_spec.

(* along every run (of the repaired pool, fixed = true, and also of the tree as found), if the
   dispatched connections are pairwise distinct then no connection is started twice, a started one is
   neither queued nor held any more, and started ++ queued ++ held is exactly the dispatched set:
   every accepted connection is run by exactly one worker step, never twice, never lost *)
Theorem c08_one_worker_per_task :
  forall (task : Type) (MIN IDLE BIG : nat) (fixed : bool) (ls : list (label task)) (s : st task),
    run task MIN IDLE BIG fixed (init task MIN) ls = Some s ->
    NoDup (dispatched task ls) ->
    NoDup (started task s) /\
    (forall tk, In tk (started task s) -> ~ In tk (todo task s)) /\
    (forall tk, In tk (started task s) -> ~ In tk (held task (ws task s))) /\
    NoDup (todo task s ++ held task (ws task s)) /\
    Permutation (started task s ++ todo task s ++ held task (ws task s)) (dispatched task ls).
Proof.
  intros task MIN IDLE BIG fixed ls s H ND.
  destruct (one_worker_per_task task MIN IDLE BIG fixed ls s H) as [P Q]. destruct (Q ND) as (A & B & C & D). auto.
Qed.
Print Assumptions c08_one_worker_per_task.

(* the permutation needs no distinctness hypothesis *)
Theorem c08_tasks_accounted :
  forall (task : Type) (MIN IDLE BIG : nat) (fixed : bool) (ls : list (label task)) (s : st task),
    run task MIN IDLE BIG fixed (init task MIN) ls = Some s ->
    Permutation (started task s ++ todo task s ++ held task (ws task s)) (dispatched task ls).
Proof. intros task MIN IDLE BIG fixed ls s H. exact (proj1 (one_worker_per_task task MIN IDLE BIG fixed ls s H)). Qed.
Print Assumptions c08_tasks_accounted.

(* liveness reading: from every reachable state of the repaired pool a schedule made only of worker
   steps Start / Lock / Resume (no TaskDone: no running task ever ends; no Dispatch, PoolDrop, Tick,
   Timeout, Spurious) empties the queue and starts every held task; afterwards every task dispatched
   so far has been started *)
Theorem c08_no_taskdone_needed :
  forall (task : Type) (MIN IDLE BIG : nat), MIN < BIG ->
  forall (ls0 : list (label task)) (s : st task),
    run task MIN IDLE BIG true (init task MIN) ls0 = Some s ->
    exists (ls : list (label task)) (s' : st task),
      only_worker_steps task ls /\ run task MIN IDLE BIG true s ls = Some s' /\ todo task s' = [] /\
      (forall w tk, nth_error (ws task s') w <> Some (Spawned task (Some tk))) /\
      Permutation (started task s') (dispatched task ls0).
Proof. exact every_task_starts. Qed.
Print Assumptions c08_no_taskdone_needed.

(* the same from any state satisfying the invariant (not only reachable ones) *)
Theorem c08_no_taskdone_needed_inv :
  forall (task : Type) (MIN IDLE BIG : nat), MIN < BIG ->
  forall (s : st task), Inv task MIN s ->
    exists (ls : list (label task)) (s' : st task),
      only_worker_steps task ls /\ run task MIN IDLE BIG true s ls = Some s' /\ todo task s' = [] /\
      (forall w tk, nth_error (ws task s') w <> Some (Spawned task (Some tk))) /\
      held task (ws task s') = [] /\ Inv task MIN s'.
Proof. exact no_taskdone_needed. Qed.
Print Assumptions c08_no_taskdone_needed_inv.

(* non-vacuity: a burst of five distinct connections on four idle workers, nobody has resumed yet:
   four are queued, the fifth is held by a new thread, none has started *)
Definition c08_burst : list (label nat) :=
  [Start nat 0; Start nat 1; Start nat 2; Start nat 3; Lock nat 0; Lock nat 1; Lock nat 2; Lock nat 3;
   Dispatch nat 1 (Some 0); Dispatch nat 2 (Some 1); Dispatch nat 3 (Some 2); Dispatch nat 4 (Some 3); Dispatch nat 5 None].
Example c08_example_burst_distinct : dispatched nat c08_burst = [1; 2; 3; 4; 5] /\ NoDup (dispatched nat c08_burst).
Proof.
  split; [vm_compute; reflexivity|]. change (dispatched nat c08_burst) with [1; 2; 3; 4; 5].
  repeat (constructor; [cbn; intuition discriminate|]). constructor.
Qed.
Example c08_example_burst_state :
  match run nat 4 5 99 true (init nat 4) c08_burst with
  | Some s => started nat s = [] /\ todo nat s = [1; 2; 3; 4] /\ held nat (ws nat s) = [5]
  | None => False
  end.
Proof. vm_compute. repeat split; reflexivity. Qed.
(* ... and a schedule of worker steps only starts all five; no TaskDone occurs *)
Example c08_example_no_taskdone :
  only_worker_steps nat [Start nat 4; Resume nat 0; Resume nat 1; Resume nat 2; Resume nat 3] /\
  match run nat 4 5 99 true (init nat 4) (c08_burst ++ [Start nat 4; Resume nat 0; Resume nat 1; Resume nat 2; Resume nat 3]) with
  | Some s => started nat s = [5; 1; 2; 3; 4] /\ todo nat s = [] /\ held nat (ws nat s) = []
  | None => False
  end.
Proof. split; [repeat constructor|]. vm_compute. repeat split; reflexivity. Qed.
