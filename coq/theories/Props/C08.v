(* Props/C08.v — connections are isolated: none waits for another; one worker per connection.
   Statements only; proofs are in Conc/TaskPool.v (all label sequences: any number of workers,
   dispatch bursts, wake-up orders; tasks need never finish). *)
From Coq Require Import List Arith Lia.
Import ListNotations.
From TH Require Import Conc.TaskPool.

(* in every reachable state of the repaired pool every queued task (accepted connection) has its own
   awake worker: no queued connection ever needs another connection to end (no TaskDone label) *)
Theorem c08_queued_task_has_awake_worker :
  forall (task : Type) (MIN IDLE BIG : nat), MIN < BIG ->
  forall (ls : list (label task)) (s : st task),
    run task MIN IDLE BIG true (init task MIN) ls = Some s ->
    length (todo task s) <= count task (is_woken task) (ws task s).
Proof. exact queued_task_has_awake_worker. Qed.
Print Assumptions c08_queued_task_has_awake_worker.

(* an awake worker's next step is always enabled and starts the head of the queue *)
Theorem c08_woken_takes_head :
  forall (task : Type) (MIN IDLE BIG : nat), MIN < BIG ->
  forall (s : st task) (w : nat) (r : bool) (tk : task) (rest : list task),
    nth_error (ws task s) w = Some (Woken task r) -> todo task s = tk :: rest ->
    exists s', step task MIN IDLE BIG true s (Resume task w) = Some s' /\
               nth_error (ws task s') w = Some (Running task tk) /\ todo task s' = rest.
Proof. exact woken_takes_head. Qed.
Print Assumptions c08_woken_takes_head.

(* the tree as found violated it (defect D3, repaired): 4 idle workers, 5 dispatches before any of
   them resumes: task 5 is queued, nobody is awake or idle, the other four tasks never end *)
Theorem c08_asfound_refuted :
  exists ls s, run nat 4 5 99 false (init nat 4) ls = Some s /\
    todo nat s = [5] /\ count nat (is_woken nat) (ws nat s) = 0 /\ count nat (is_blocked nat) (ws nat s) = 0.
Proof. exact asfound_stranded. Qed.
Print Assumptions c08_asfound_refuted.

(* non-vacuity: the same burst on the repaired pool: the fifth dispatch creates a new worker *)
Example c08_example_repaired :
  match run nat 4 5 99 true (init nat 4)
      [Start nat 0; Start nat 1; Start nat 2; Start nat 3; Lock nat 0; Lock nat 1; Lock nat 2; Lock nat 3;
       Dispatch nat 1 (Some 0); Dispatch nat 2 (Some 1); Dispatch nat 3 (Some 2); Dispatch nat 4 (Some 3); Dispatch nat 5 None;
       Resume nat 0; Resume nat 1; Resume nat 2; Resume nat 3; Start nat 4] with
  | Some s => todo nat s = [] /\ started nat s = [1; 2; 3; 4; 5]
  | None => False
  end.
Proof. vm_compute. split; reflexivity. Qed.
