(* Props/C20.v — shutdown stops accepting but not answering; idle workers are reclaimed.
   Statements only; proofs are in Conc/TaskPool.v, Conc/TaskPoolIdle.v (pool part) and
   Conc/Shutdown.v (accept loop and Server::drop). *)
From Coq Require Import List Arith Lia.
Import ListNotations.
From TH Require Import Conc.TaskPool Conc.TaskPoolFacts Conc.TaskPoolIdle.
From TH Require Conc.Shutdown.

(* at most MIN_THREADS workers ever wait without a deadline (before and after the pool is dropped):
   every other idle worker is in a timed wait and retires when it expires *)
Theorem c20_untimed_waiters_le_min :
  forall (task : Type) (MIN IDLE BIG : nat), MIN < BIG ->
  forall (ls : list (label task)) (s : st task),
    run task MIN IDLE BIG true (init task MIN) ls = Some s ->
    count task (is_untimed task) (ws task s) <= MIN.
Proof. exact untimed_waiters_le_min. Qed.
Print Assumptions c20_untimed_waiters_le_min.

(* ================= pool part (proofs: Conc/TaskPoolIdle.v) ================= *)

(* a timed waiter that is not notified: from its deadline on Timeout is enabled, the worker resumes
   with the queue empty, decides to return and exits; the Exit guard is the model's (before PoolDrop
   always; after it: the poisoned counter has not been counted down to MIN + 1) *)
Theorem c20_timed_waiter_exits :
  forall (task : Type) (MIN IDLE BIG : nat), MIN < BIG ->
  forall (fixed : bool) (s : st task) (w d : nat),
    nth_error (ws task s) w = Some (Blocked task true d) -> d <= now task s -> todo task s = [] ->
    (dropped task s = false \/ S MIN < active task s) ->
    exists s1 s2 s3 : st task,
      step task MIN IDLE BIG fixed s (Timeout task w) = Some s1 /\ nth_error (ws task s1) w = Some (Woken task false) /\
      step task MIN IDLE BIG fixed s1 (Resume task w) = Some s2 /\ nth_error (ws task s2) w = Some (Exiting task) /\
      step task MIN IDLE BIG fixed s2 (Exit task w) = Some s3 /\ nth_error (ws task s3) w = Some (Exited task) /\
      ws task s3 = upd (ws task s) w (Exited task) /\ active task s3 = active task s - 1 /\
      waiting task s3 = waiting task s - 1 /\ todo task s3 = [] /\ now task s3 = now task s /\
      dropped task s3 = dropped task s.
Proof. exact timed_waiter_exits. Qed.
Print Assumptions c20_timed_waiter_exits.

(* ... and not earlier: before the deadline the timeout cannot fire; an untimed waiter never times out *)
Theorem c20_timeout_not_before_deadline :
  forall (task : Type) (MIN IDLE BIG : nat), MIN < BIG ->
  forall (fixed : bool) (s : st task) (w d : nat),
    nth_error (ws task s) w = Some (Blocked task true d) -> now task s < d ->
    step task MIN IDLE BIG fixed s (Timeout task w) = None.
Proof. exact timeout_not_before_deadline. Qed.
Print Assumptions c20_timeout_not_before_deadline.

(* counting: in every reachable state at most MIN idle workers have no deadline, none after PoolDrop;
   all other idle workers are timed, and every deadline is at most IDLE after the present (it was set
   to `now + IDLE` when the worker went idle) *)
Theorem c20_idle_workers_beyond_min_are_timed :
  forall (task : Type) (MIN IDLE BIG : nat), MIN < BIG ->
  forall (ls : list (label task)) (s : st task),
    run task MIN IDLE BIG true (init task MIN) ls = Some s ->
    count task (is_untimed task) (ws task s) <= MIN /\
    (dropped task s = true -> count task (is_untimed task) (ws task s) = 0) /\
    count task (is_blocked task) (ws task s) =
      count task (is_untimed task) (ws task s) + count task (is_timed task) (ws task s) /\
    (forall w b d, nth_error (ws task s) w = Some (Blocked task b d) -> d <= now task s + IDLE).
Proof. exact idle_beyond_min_are_timed. Qed.
Print Assumptions c20_idle_workers_beyond_min_are_timed.

(* the thread count returns to the baseline: from every reachable state with nothing queued, nothing
   running and no task held by a new thread, a schedule without Dispatch / TaskDone / Spurious / PoolDrop
   (the moving workers settle: Start, Lock, Resume; ONE `Tick IDLE`; Timeout, Resume, Exit) leads to a
   state in which every thread has exited or waits without deadline: at most MIN threads are alive
   (`is_alive`: not Exited, i.e. also counting threads created but not yet registered), none after
   PoolDrop. `exit_room` is vacuous before PoolDrop; after it, it is the model's standing assumption
   (TaskPool.v:94) that the poisoned counter 999_999_999 is not counted down to MIN + 1. *)
Theorem c20_threads_return :
  forall (task : Type) (MIN IDLE BIG : nat), MIN < BIG ->
  forall (ls0 : list (label task)) (s : st task),
    run task MIN IDLE BIG true (init task MIN) ls0 = Some s ->
    todo task s = [] -> count task (is_running task) (ws task s) = 0 ->
    count task (is_holding task) (ws task s) = 0 -> exit_room task MIN s ->
    exists (ls : list (label task)) (s' : st task),
      only_quiet_steps task ls /\ run task MIN IDLE BIG true s ls = Some s' /\
      now task s' = now task s + IDLE /\
      count task (is_alive task) (ws task s') <= MIN /\
      (dropped task s = true -> count task (is_alive task) (ws task s') = 0) /\
      Forall (fun r => r = Exited task \/ exists d, r = Blocked task false d) (ws task s').
Proof. exact threads_return_reachable. Qed.
Print Assumptions c20_threads_return.

(* when every worker is already idle (none is being created or stands at the lock) the schedule consists
   of Tick / Timeout / Resume / Exit steps only: time passing, timeouts, and the workers' own exits *)
Theorem c20_threads_return_all_idle :
  forall (task : Type) (MIN IDLE BIG : nat), MIN < BIG ->
  forall (ls0 : list (label task)) (s : st task),
    run task MIN IDLE BIG true (init task MIN) ls0 = Some s ->
    todo task s = [] -> count task (is_running task) (ws task s) = 0 ->
    count task (is_holding task) (ws task s) = 0 ->
    count task (is_fresh task) (ws task s) = 0 -> count task (is_atlock task) (ws task s) = 0 ->
    exit_room task MIN s ->
    exists (ls : list (label task)) (s' : st task),
      only_timer_steps task ls /\ run task MIN IDLE BIG true s ls = Some s' /\
      now task s' = now task s + IDLE /\
      count task (is_alive task) (ws task s') <= MIN /\
      (dropped task s = true -> count task (is_alive task) (ws task s') = 0) /\
      Forall (fun r => r = Exited task \/ exists d, r = Blocked task false d) (ws task s').
Proof. exact threads_return_idle_reachable. Qed.
Print Assumptions c20_threads_return_all_idle.

(* exit_room: free before the drop; established by the drop when fewer than BIG - MIN threads are
   live; preserved by every later step *)
Theorem c20_exit_room :
  forall (task : Type) (MIN IDLE BIG : nat), MIN < BIG ->
  (forall s : st task, dropped task s = false -> exit_room task MIN s) /\
  (forall s s' : st task, dropped task s = false -> count task (is_live task) (ws task s) + MIN < BIG ->
     step task MIN IDLE BIG true s (PoolDrop task) = Some s' -> exit_room task MIN s') /\
  (forall (s : st task) (l : label task) (s' : st task), l <> PoolDrop task -> dropped task s = true ->
     exit_room task MIN s -> step task MIN IDLE BIG true s l = Some s' -> exit_room task MIN s').
Proof.
  intros task MIN IDLE BIG HB. split; [exact (exit_room_before_drop task MIN)|].
  split; [exact (exit_room_at_drop task MIN IDLE BIG)|exact (exit_room_step task MIN IDLE BIG HB)].
Qed.
Print Assumptions c20_exit_room.

(* dropping the pool leaves queued, running and not yet started tasks alone: it only wakes waiters *)
Theorem c20_pooldrop_keeps_tasks :
  forall (task : Type) (MIN IDLE BIG : nat) (fixed : bool) (s s' : st task),
    step task MIN IDLE BIG fixed s (PoolDrop task) = Some s' ->
    todo task s' = todo task s /\ started task s' = started task s /\
    (forall w tk, nth_error (ws task s) w = Some (Running task tk) -> nth_error (ws task s') w = Some (Running task tk)) /\
    (forall w f, nth_error (ws task s) w = Some (Spawned task f) -> nth_error (ws task s') w = Some (Spawned task f)).
Proof. exact pooldrop_keeps_tasks. Qed.
Print Assumptions c20_pooldrop_keeps_tasks.

(* ---- non-vacuity (MIN = 4, IDLE = 5, BIG = 99): a burst of five connections on four idle workers,
   all five end, all five workers go idle while the thread counter is 5 > MIN: five timed waiters ---- *)
Definition c20_burst_idle : list (label nat) :=
  [Start nat 0; Start nat 1; Start nat 2; Start nat 3; Lock nat 0; Lock nat 1; Lock nat 2; Lock nat 3;
   Dispatch nat 1 (Some 0); Dispatch nat 2 (Some 1); Dispatch nat 3 (Some 2); Dispatch nat 4 (Some 3); Dispatch nat 5 None;
   Start nat 4; Resume nat 0; Resume nat 1; Resume nat 2; Resume nat 3;
   TaskDone nat 0; TaskDone nat 1; TaskDone nat 2; TaskDone nat 3; TaskDone nat 4;
   Lock nat 0; Lock nat 1; Lock nat 2; Lock nat 3; Lock nat 4].

Example c20_example_idle_state :
  match run nat 4 5 99 true (init nat 4) c20_burst_idle with
  | Some s => todo nat s = [] /\ dropped nat s = false /\ now nat s = 0 /\ active nat s = 5 /\
              nth_error (ws nat s) 4 = Some (Blocked nat true 5) /\
              count nat (is_alive nat) (ws nat s) = 5 /\ count nat (is_timed nat) (ws nat s) = 5 /\
              count nat (is_running nat) (ws nat s) = 0 /\ count nat (is_holding nat) (ws nat s) = 0 /\
              step nat 4 5 99 true s (Timeout nat 4) = None
  | None => False
  end.
Proof. vm_compute. repeat split; reflexivity. Qed.

(* hypotheses of c20_timed_waiter_exits after the idle period, and its conclusion observed *)
Example c20_example_timed_waiter :
  match run nat 4 5 99 true (init nat 4) (c20_burst_idle ++ [Tick nat 5]) with
  | Some s => nth_error (ws nat s) 4 = Some (Blocked nat true 5) /\ (5 <=? now nat s) = true /\ todo nat s = [] /\
              dropped nat s = false /\
              match run nat 4 5 99 true s [Timeout nat 4; Resume nat 4; Exit nat 4] with
              | Some s3 => nth_error (ws nat s3) 4 = Some (Exited nat) /\ count nat (is_alive nat) (ws nat s3) = 4 /\ active nat s3 = 4
              | None => False end
  | None => False
  end.
Proof. vm_compute. repeat split; reflexivity. Qed.

(* the hypotheses of c20_threads_return(_all_idle) hold in that state (5 threads alive > MIN), and a
   timer-only schedule brings the count down. NOTE: all five workers went idle while the thread counter
   was above MIN, so all five wait with a deadline and all five exit: the pool falls to 0 threads,
   below MIN_THREADS (the next dispatch creates a thread again); "baseline" is an upper bound *)
Example c20_example_threads_return :
  let sched := [Tick nat 5; Timeout nat 0; Timeout nat 1; Timeout nat 2; Timeout nat 3; Timeout nat 4;
                Resume nat 0; Resume nat 1; Resume nat 2; Resume nat 3; Resume nat 4;
                Exit nat 0; Exit nat 1; Exit nat 2; Exit nat 3; Exit nat 4] in
  forallb (is_timer_step nat) sched = true /\
  match run nat 4 5 99 true (init nat 4) c20_burst_idle with
  | Some s => count nat (is_fresh nat) (ws nat s) = 0 /\ count nat (is_atlock nat) (ws nat s) = 0 /\
              exit_room nat 4 s /\
              match run nat 4 5 99 true s sched with
              | Some s' => count nat (is_alive nat) (ws nat s') = 0 /\ now nat s' = 5
              | None => False end
  | None => False
  end.
Proof. vm_compute. repeat split; try reflexivity. intros H; discriminate H. Qed.

(* exit_room after a drop in that state: 5 live threads + MIN < 99; and a quiet schedule after the
   drop (all are woken, wait again with a deadline, time out, exit) ends with no thread alive *)
Example c20_example_exit_room_after_drop :
  match run nat 4 5 99 true (init nat 4) (c20_burst_idle ++ [PoolDrop nat]) with
  | Some s => exit_room nat 4 s /\ dropped nat s = true /\ todo nat s = [] /\
              count nat (is_running nat) (ws nat s) = 0 /\ count nat (is_holding nat) (ws nat s) = 0
  | None => False
  end.
Proof. vm_compute. repeat split; try reflexivity. intros _. lia. Qed.
Example c20_example_quiet_schedule_after_drop :
  let sched := [Resume nat 0; Resume nat 1; Resume nat 2; Resume nat 3; Resume nat 4; Tick nat 5;
                Timeout nat 0; Timeout nat 1; Timeout nat 2; Timeout nat 3; Timeout nat 4;
                Resume nat 0; Resume nat 1; Resume nat 2; Resume nat 3; Resume nat 4;
                Exit nat 0; Exit nat 1; Exit nat 2; Exit nat 3; Exit nat 4] in
  forallb (is_quiet_step nat) sched = true /\
  match run nat 4 5 99 true (init nat 4) (c20_burst_idle ++ [PoolDrop nat] ++ sched) with
  | Some s => count nat (is_alive nat) (ws nat s) = 0 /\ now nat s = 5
  | None => False
  end.
Proof. vm_compute. repeat split; reflexivity. Qed.

(* ================= shutdown part (model and proofs: Conc/Shutdown.v) ================= *)

(* after Server::drop at most one more accept() returns (client or self-connection), along every
   label sequence; and once the loop has exited the listener stays closed, nothing more is accepted
   and every later connection attempt is refused *)
Theorem c20_accept_stops :
  forall (s0 s1 : Shutdown.st) (ls : list Shutdown.label) (s2 : Shutdown.st),
    Shutdown.step s0 Shutdown.ServerDrop = Some s1 -> Shutdown.run s1 ls = Some s2 ->
    Shutdown.nb Shutdown.is_accept ls <= 1 /\ Shutdown.nb Shutdown.is_accept_client ls <= 1 /\
    (Shutdown.listening s2 = false ->
     forall (ls' : list Shutdown.label) (s3 : Shutdown.st), Shutdown.run s2 ls' = Some s3 ->
       Shutdown.listening s3 = false /\ Shutdown.accepted s3 = Shutdown.accepted s2 /\
       Shutdown.refused s3 = Shutdown.refused s2 ++ Shutdown.connects ls').
Proof.
  intros s0 s1 ls s2 H R. destruct (Shutdown.accept_stops s0 s1 ls s2 H R) as [A B]. split; [exact A|]. split; [exact B|].
  intros Hl ls' s3 R'. destruct (Shutdown.closed_listener_refuses ls' s2 s3 Hl R') as (L & Ac & _ & Rf). auto.
Qed.
Print Assumptions c20_accept_stops.

(* the loop cannot stay blocked in accept(): after the drop, whatever happened since, (1) at most two
   loop steps (accept return, loop test) occur in total, (2) while the listener exists one is enabled
   (the self-connection), (3) a schedule of at most two loop steps closes the listener and drops the pool *)
Theorem c20_loop_exits :
  forall (s0 s1 : Shutdown.st) (ls : list Shutdown.label) (s2 : Shutdown.st),
    Shutdown.step s0 Shutdown.ServerDrop = Some s1 -> Shutdown.run s1 ls = Some s2 ->
    Shutdown.nb Shutdown.is_loop_step ls <= 2 /\
    (Shutdown.listening s2 = true ->
       exists l s3, Shutdown.is_loop_step l = true /\ Shutdown.step s2 l = Some s3) /\
    (exists ls' s3, length ls' <= 2 /\ Forall (fun l => Shutdown.is_loop_step l = true) ls' /\
       Shutdown.run s2 ls' = Some s3 /\ Shutdown.listening s3 = false /\
       (Shutdown.listening s2 = true -> Shutdown.pool_dropped s3 = true)).
Proof. exact Shutdown.loop_exits. Qed.
Print Assumptions c20_loop_exits.

Theorem c20_path_removed :
  forall (s0 s1 : Shutdown.st) (ls : list Shutdown.label) (s2 : Shutdown.st),
    Shutdown.step s0 Shutdown.ServerDrop = Some s1 -> Shutdown.run s1 ls = Some s2 ->
    Shutdown.path_removed s2 = true.
Proof. exact Shutdown.path_removed_after_drop. Qed.
Print Assumptions c20_path_removed.

(* frame: the connections handed to the pool only grow (by what accept returns), and neither
   Server::drop nor the loop test / loop exit changes them *)
Theorem c20_handed_out_requests_survive :
  (forall (ls : list Shutdown.label) (s s' : Shutdown.st), Shutdown.run s ls = Some s' ->
     Shutdown.accepted s' = Shutdown.accepted s ++ Shutdown.handed ls) /\
  (forall (s : Shutdown.st) (l : Shutdown.label) (s' : Shutdown.st), Shutdown.step s l = Some s' ->
     l = Shutdown.ServerDrop \/ l = Shutdown.LoopTest -> Shutdown.accepted s' = Shutdown.accepted s).
Proof. split; [exact Shutdown.accepted_only_grows|exact Shutdown.drop_and_exit_keep_accepted]. Qed.
Print Assumptions c20_handed_out_requests_survive.

(* reachable states of the accept loop: the pool is dropped exactly when the listener is closed, the
   listener closes only with the flag set (then nothing is left in the backlog), the path is removed
   exactly when the flag is set *)
Theorem c20_shutdown_reachable :
  forall (ls : list Shutdown.label) (s : Shutdown.st), Shutdown.run Shutdown.init ls = Some s ->
    Shutdown.pool_dropped s = negb (Shutdown.listening s) /\
    (Shutdown.listening s = false ->
       Shutdown.closed s = true /\ Shutdown.backlog s = [] /\ Shutdown.in_accept s = false) /\
    Shutdown.path_removed s = Shutdown.closed s.
Proof. exact Shutdown.run_R. Qed.
Print Assumptions c20_shutdown_reachable.

(* non-vacuity: client 1 served; client 2 is in the backlog when the server is dropped and is the one
   more accepted connection; client 3 connects before the loop test and is reset at the exit; client 4
   comes later and is refused; the accepted connections 1 and 2 are untouched *)
Example c20_example_shutdown :
  match Shutdown.run Shutdown.init
      [Shutdown.LoopTest; Shutdown.ClientConnect 1; Shutdown.AcceptClient 1; Shutdown.LoopTest;
       Shutdown.ClientConnect 2; Shutdown.ServerDrop; Shutdown.AcceptClient 2; Shutdown.ClientConnect 3;
       Shutdown.LoopTest; Shutdown.ClientConnect 4] with
  | Some s => Shutdown.listening s = false /\ Shutdown.accepted s = [Some 1; Some 2] /\
              Shutdown.refused s = [3; 4] /\ Shutdown.path_removed s = true /\ Shutdown.pool_dropped s = true
  | None => False
  end.
Proof. vm_compute. repeat split; reflexivity. Qed.
(* the thread is blocked in accept() with an empty backlog when the server is dropped: only the
   self-connection wakes it; without it (no ServerDrop) no loop step is enabled *)
Example c20_example_self_connection :
  match Shutdown.run Shutdown.init [Shutdown.LoopTest; Shutdown.ServerDrop; Shutdown.AcceptWake; Shutdown.LoopTest] with
  | Some s => Shutdown.listening s = false /\ Shutdown.accepted s = [None] /\ Shutdown.pool_dropped s = true
  | None => False
  end /\
  match Shutdown.run Shutdown.init [Shutdown.LoopTest] with
  | Some s => Shutdown.step s Shutdown.LoopTest = None /\ Shutdown.step s Shutdown.AcceptWake = None /\
              forall c, Shutdown.step s (Shutdown.AcceptClient c) = None
  | None => False
  end.
Proof. split; vm_compute; repeat split; reflexivity. Qed.
