(* Props/C20.v — shutdown stops accepting but not answering; idle workers are reclaimed.
   Statements only; proofs are in Conc/TaskPool.v. *)
From Coq Require Import List Arith Lia.
Import ListNotations.
From TH Require Import Conc.TaskPool.

(* at most MIN_THREADS workers ever wait without a deadline (before and after the pool is dropped):
   every other idle worker is in a timed wait and retires when it expires *)
Theorem c20_untimed_waiters_le_min :
  forall (task : Type) (MIN IDLE BIG : nat), MIN < BIG ->
  forall (ls : list (label task)) (s : st task),
    run task MIN IDLE BIG true (init task MIN) ls = Some s ->
    count task (is_untimed task) (ws task s) <= MIN.
Proof. exact untimed_waiters_le_min. Qed.
Print Assumptions c20_untimed_waiters_le_min.
