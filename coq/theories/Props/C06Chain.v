(* Props/C06.v — "… No request is answered twice or left unanswered, and a dropped request never holds up the
   responses that follow it."
   Statements only.

   ===== Section A: ordering / liveness part at the level of the sequential-writer chain =====
   (src/util/sequential.rs; proofs in Conc/SeqWriter.v and Conc/SeqWriterFacts.v; ALL label sequences, any number of
   writers and threads, any interleaving; `step … = None` means the calling thread blocks; `true` = repaired tree.)
   Other C06 theorems (response-level) are to be added below in their own sections. *)
From Coq Require Import List Arith Bool Lia.
Import ListNotations.
From TH Require Import Conc.SeqWriter Conc.SeqWriterFacts.

(* a dropped request never holds up later responses: as soon as DropW i has succeeded, the next writer (if the next
   request was already parsed) is the least undropped one and its write, flush and drop are all enabled
   (in a reachable state DropW i can only succeed when all writers before i were dropped) *)
Theorem c06_drop_releases_followers :
  forall (byte : Type) (ls : list (label byte)) (s s' : st byte) (i : nat) (w1 : wr byte),
    run byte true (init byte) ls = Some s -> step byte true s (DropW byte i) = Some s' ->
    nth_error (ws byte s) (S i) = Some w1 ->
    least_undropped byte (ws byte s') = Some (S i) /\
    (forall d, exists s'', step byte true s' (Write byte (S i) d) = Some s'') /\
    (exists s'', step byte true s' (Flush byte (S i)) = Some s'') /\
    (exists s'', step byte true s' (DropW byte (S i)) = Some s'').
Proof.
  intros byte ls s s' i w1 H. apply drop_releases_follower. apply reachable_inv. exists ls; exact H.
Qed.
Print Assumptions c06_drop_releases_followers.

(* ... and if the next request is parsed only later, its writer is born released *)
Theorem c06_drop_releases_later_follower :
  forall (byte : Type) (s : st byte),
    least_undropped byte (ws byte s) = None ->
    exists s', step byte true s (New byte) = Some s' /\ least_undropped byte (ws byte s') = Some (length (ws byte s)).
Proof. exact new_after_all_dropped. Qed.
Print Assumptions c06_drop_releases_later_follower.

(* dropping all remaining requests, in arrival order, without answering any of them never blocks, writes nothing
   and leaves every writer dropped *)
Theorem c06_dropping_everything_terminates :
  forall (byte : Type) (ls : list (label byte)) (s : st byte) (k : nat),
    run byte true (init byte) ls = Some s -> least_undropped byte (ws byte s) = Some k ->
    exists s', run byte true s (drop_from byte k (length (ws byte s) - k)) = Some s' /\
      stream byte s' = stream byte s /\ length (ws byte s') = length (ws byte s) /\
      least_undropped byte (ws byte s') = None.
Proof.
  intros byte ls s k H. apply drop_all_runs. apply reachable_inv. exists ls; exact H.
Qed.
Print Assumptions c06_dropping_everything_terminates.

(* a dropped writer accepts no further operation: Write / Flush / DropW i are all refused *)
Theorem c06_dropped_disabled :
  forall (byte : Type) (fixed : bool) (s : st byte) (i : nat) (w : wr byte) (l : label byte),
    nth_error (ws byte s) i = Some w -> dropped byte w = true -> label_index byte l = Some i ->
    step byte fixed s l = None.
Proof. exact dropped_disabled. Qed.
Print Assumptions c06_dropped_disabled.

(* along any executable sequence, no label of writer i occurs after DropW i, and writer i stays dropped *)
Theorem c06_dropped_once :
  forall (byte : Type) (fixed : bool) (s s' : st byte) (i : nat) (ls : list (label byte)),
    run byte fixed s (DropW byte i :: ls) = Some s' ->
    Forall (fun l => label_index byte l <> Some i) ls /\
    exists w, nth_error (ws byte s') i = Some w /\ dropped byte w = true.
Proof. intros byte fixed s s' i ls. apply dropped_once. Qed.
Print Assumptions c06_dropped_once.

Theorem c06_dropped_at_most_once :
  forall (byte : Type) (fixed : bool) (ls : list (label byte)) (s s' : st byte) (i : nat),
    run byte fixed s ls = Some s' -> length (filter (is_drop byte i) ls) <= 1.
Proof. exact dropped_at_most_once. Qed.
Print Assumptions c06_dropped_at_most_once.

(* the block of a dropped writer is final: whatever happens afterwards, it contributes no more bytes *)
Theorem c06_dropped_writer_frozen :
  forall (byte : Type) (fixed : bool) (ls : list (label byte)) (s s' : st byte) (i : nat) (w : wr byte),
    run byte fixed s ls = Some s' -> nth_error (ws byte s) i = Some w -> dropped byte w = true ->
    nth_error (ws byte s') i = Some w /\ Forall (fun l => label_index byte l <> Some i) ls.
Proof. exact dropped_frozen_run. Qed.
Print Assumptions c06_dropped_writer_frozen.

(* ---------- non-vacuity ---------- *)
(* request 0 is dropped unanswered: request 1 is answered right away, nothing of request 0 is on the wire *)
Example c06_example_dropped_does_not_hold_up :
  match run nat true (init nat) [New nat; New nat; DropW nat 0; Write nat 1 [7; 8]; DropW nat 1] with
  | Some s => stream nat s = [7; 8] /\ map (sent nat) (ws nat s) = [[]; [7; 8]]
  | None => False
  end.
Proof. vm_compute. repeat split. Qed.

(* a second drop, or a write after the drop, is refused *)
Example c06_example_second_drop_refused :
  run nat true (init nat) [New nat; Write nat 0 [1]; DropW nat 0; DropW nat 0] = None /\
  run nat true (init nat) [New nat; Write nat 0 [1]; DropW nat 0; Write nat 0 [2]] = None /\
  run nat true (init nat) [New nat; Write nat 0 [1]; DropW nat 0; Flush nat 0] = None.
Proof. vm_compute. repeat split. Qed.

(* a request parsed after its predecessor was dropped is released from birth *)
Example c06_example_late_follower :
  match run nat true (init nat) [New nat; DropW nat 0; New nat; Write nat 1 [9]] with
  | Some s => stream nat s = [9]
  | None => False
  end.
Proof. vm_compute. reflexivity. Qed.
