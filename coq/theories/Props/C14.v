(* Props/C14.v — placeholder; theorems are added as the proofs land. *)
From TH Require Import Base.Bytes Http.Response Http.Request Http.Body Http.Serve.
Definition c14_witness : bytes :=
  s "POST /a HTTP/1.1" ++ CRLF ++ s "Content-Length: 1099511627776" ++ CRLF ++ CRLF ++ s "hello".
Example c14_example_bounded :
  forallb (fun n => (n <=? 8192)%N) (o_allocs (serve fixed (s "D") [] (mkA [] (FRespond 200 (s "ok") true)) c14_witness true)) = true.
Proof. vm_compute. reflexivity. Qed.
Example c14_asfound_refuted :
  existsb (fun n => (n =? 1099511627776)%N) (o_allocs (serve asfound (s "D") [] (mkA [] (FRespond 200 (s "ok") true)) c14_witness true)) = true.
Proof. vm_compute. reflexivity. Qed.
