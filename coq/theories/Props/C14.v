(* Props/C14.v — placeholder; theorems are added as the proofs land. *)
From TH Require Import Base.Bytes Http.Response Http.Request Http.Body Http.Serve.
Definition c14_witness : bytes :=
  s "POST /a HTTP/1.1" ++ CRLF ++ s "Content-Length: 1099511627776" ++ CRLF ++ CRLF ++ s "hello".
Example c14_example_bounded :
  forallb (fun n => (n <=? 8192)%N) (o_allocs (serve fixed (s "D") [] (mkA [] (FRespond 200 (s "ok") true)) c14_witness true)) = true.
Proof. vm_compute. reflexivity. Qed.
Example c14_asfound_refuted :
  existsb (fun n => (n =? 1099511627776)%N) (o_allocs (serve asfound (s "D") [] (mkA [] (FRespond 200 (s "ok") true)) c14_witness true)) = true.
Proof. vm_compute. reflexivity. Qed.

(* ---------------------------------------------------------------------------------------------
   C14 — theorems (proofs in Http/AllocFacts.v, Http/C14ArithFacts.v, Http/ServeStreamFacts.v)
   --------------------------------------------------------------------------------------------- *)
From TH Require Import Http.ServeFacts Http.AllocFacts Http.C14ArithFacts Http.ServeStreamFacts.
From Coq Require Import Lia.

(* (a) every allocation made on behalf of a client-declared length is at most 8 KiB,
       for every input, half-close flag, date, handler script and default action *)
Theorem c14_alloc_bounded : forall date script dflt input eof,
  Forall (fun n => (n <= 8192)%N) (o_allocs (serve fixed date script dflt input eof)).
Proof. exact serve_allocs_bounded. Qed.
Print Assumptions c14_alloc_bounded.

(* the pre-read small body is at most 1024 bytes *)
Theorem c14_buffered_small : forall c hs n bl e,
  framing c hs = FrOk (KBuffered n) bl e -> (n <= 1024)%N.
Proof. exact framing_buffered_le. Qed.
Print Assumptions c14_buffered_small.

(* (b) the arithmetic panic sites: no subtraction underflows, no slice is out of range *)
Theorem c14_no_underflow_src : forall n st d st', src_read n st = (RData d, st') ->
  (List.length d <= n)%nat /\ d <> [] /\ sbytes st = d ++ sbytes st' /\ seof st' = seof st.
Proof. exact src_read_piece. Qed.
Print Assumptions c14_no_underflow_src.

Theorem c14_no_underflow_limited : forall c n rem st al d r' st' al',
  body_read c n (BLimited rem) st al = (RData d, r', st', al') ->
  (len d <= rem)%N /\ (len d <= N.of_nat n)%N /\ r' = BLimited (rem - len d)%N.
Proof. exact limited_read_piece. Qed.
Print Assumptions c14_no_underflow_limited.

(* discard_S: the loop of EqualReader::drop reads with `discard_want` into a buffer of `discard_buf` *)
Theorem c14_no_underflow_discard : forall c remaining st d st1, remaining <> 0%N ->
  src_read (discard_want c remaining st) st = (RData d, st1) ->
  (len d <= remaining)%N /\ (len d <= discard_buf c remaining)%N.
Proof. exact discard_piece. Qed.
Print Assumptions c14_no_underflow_discard.
Theorem c14_discard_unfold : forall c f remaining st al,
  discard c (S f) remaining st al =
  if (remaining =? 0)%N then (st, al) else
  match src_read (discard_want c remaining st) st with
  | (RData d, st1) => discard c f (remaining - len d)%N st1 (discard_buf c remaining :: al)
  | (_, st1) => (st1, discard_buf c remaining :: al)
  end.
Proof. exact discard_S. Qed.
Print Assumptions c14_discard_unfold.

Theorem c14_no_underflow_chunked : forall n r st d rem' st',
  dec_read n (Some r) st = (RData d, rem', st') ->
  (len d <= r)%N /\ (List.length d <= n)%nat /\ (rem' = Some (r - len d)%N \/ rem' = None /\ len d = r).
Proof. exact dec_read_piece. Qed.
Print Assumptions c14_no_underflow_chunked.

Theorem c14_no_underflow_buffer : forall c n r st al d r' st' al',
  body_read c n r st al = (RData d, r', st', al') -> (List.length d <= n)%nat.
Proof. exact body_read_fits. Qed.
Print Assumptions c14_no_underflow_buffer.

Theorem c14_no_underflow_buffer_any : forall c n r st al d r' st' al',
  body_read_any c n r st al = (RData d, r', st', al') -> (List.length d <= n)%nat.
Proof. exact body_read_any_fits. Qed.
Print Assumptions c14_no_underflow_buffer_any.

Theorem c14_no_underflow_take : forall c m n r st al d r' st' al',
  body_read_any c (N.to_nat (N.min m (N.of_nat n))) r st al = (RData d, r', st', al') -> (len d <= m)%N.
Proof. exact take_piece. Qed.
Print Assumptions c14_no_underflow_take.

(* (c) fuel honesty: an iteration of serve_loop that continues strictly shortens the pending
       bytes (serve_loop_S: serve_loop (S f) = run_step (serve_loop f) (serve_step ...)), so the
       fuel `S (length input)` of `serve` is never exhausted: more fuel changes nothing *)
Theorem c14_iteration_progress : forall c date script dflt st wire reqs al ok script' st' wire' reqs' al' ok',
  serve_step c date script dflt st wire reqs al ok = SCont script' st' wire' reqs' al' ok' ->
  (List.length (sbytes st') < List.length (sbytes st))%nat.
Proof. exact serve_step_progress. Qed.
Print Assumptions c14_iteration_progress.

Theorem c14_serve_never_out_of_fuel : forall c date script dflt input eof extra,
  serve_loop c date (S (List.length input) + extra) script dflt (mkS input eof) [] [] [] true
  = serve c date script dflt input eof.
Proof. exact serve_fuel. Qed.
Print Assumptions c14_serve_never_out_of_fuel.

(* non-vacuity *)
Example c14_example_limited :
  body_read fixed 3 (BLimited 5) (mkS (s "hello") false) [] = (RData (s "hel"), BLimited 2, mkS (s "lo") false, []).
Proof. vm_compute. reflexivity. Qed.
Example c14_example_chunked :
  dec_read 3 (Some 5%N) (mkS (s "hello") false) = (RData (s "hel"), Some 2%N, mkS (s "lo") false).
Proof. vm_compute. reflexivity. Qed.
Example c14_example_discard :
  src_read (discard_want fixed 100000 (mkS (s "hello") false)) (mkS (s "hello") false)
  = (RData (s "hello"), mkS [] false) /\ discard_buf fixed 100000 = 8192%N.
Proof. vm_compute. split; reflexivity. Qed.
Example c14_example_progress :
  match serve_step fixed (s "D") [] (mkA [] (FRespond 200 (s "ok") true))
          (mkS (s "GET / HTTP/1.1" ++ CRLF ++ CRLF ++ s "GET") false) [] [] [] true with
  | SCont _ st' _ reqs' _ _ => sbytes st' = s "GET" /\ List.length reqs' = 1%nat
  | SDone _ => False
  end.
Proof. vm_compute. split; reflexivity. Qed.
