(* Props/C19.v — Response header policy: protected names, one Content-Type, auto Date/Server.
   Only statements. *)
From TH Require Import Base.Bytes Http.Response Http.C19Spec Http.C19Facts.

(* The header list of ANY response built through a constructor + add_header/with_header/
   with_status_code/with_chunked_threshold/with_data equals the declarative policy `keep`
   applied to the headers supplied, in the order supplied. *)
Theorem c19_stored_headers_are_policy :
  forall st hs b dl ops,
    rheaders (build (new_response st hs b dl) ops) = keep (supplied_of hs ops).
Proof. intros. rewrite built_headers. apply add_hl_is_keep. Qed.
Print Assumptions c19_stored_headers_are_policy.

(* The header block written by raw_print is: [Connection, Upgrade if upgrading] ++ [Server unless
   supplied] ++ [Date unless supplied] ++ kept headers ++ [the framing header]. *)
Theorem c19_policy :
  forall date st hs b dl ops up te dlen,
    let r := build (new_response st hs b dl) ops in
    final_headers date r up te dlen =
    policy_headers date (supplied_of hs ops) up ++
    match te, dlen with
    | Some Chunked, _ => [mkH (s "Transfer-Encoding") (s "chunked")]
    | Some Identity, Some l => [mkH (s "Content-Length") (print_dec l)]
    | _, _ => []
    end.
Proof. exact final_is_policy. Qed.
Print Assumptions c19_policy.

(* sent once each, in the order given (Content-Type handled separately) *)
Theorem c19_order_and_multiplicity :
  forall supplied,
    drop_ct (keep supplied) = filter (fun h => negb (unsendable h) && negb (is_ct h)) supplied.
Proof. exact keep_order. Qed.
Print Assumptions c19_order_and_multiplicity.

(* Connection, Trailer, Transfer-Encoding, Upgrade and Content-Length are never sent *)
Theorem c19_protected_never_sent :
  forall supplied, Forall (fun h => unsendable h = false) (keep supplied).
Proof. exact keep_sendable. Qed.
Print Assumptions c19_protected_never_sent.

(* at most one Content-Type, carrying the value supplied last *)
Theorem c19_one_content_type :
  forall supplied,
    map hvalue (filter is_ct (keep supplied)) =
    match rev (filter is_ct (filter (fun h => negb (unsendable h)) supplied)) with
    | [] => []
    | l :: _ => [hvalue l]
    end.
Proof. exact keep_content_type. Qed.
Print Assumptions c19_one_content_type.

Theorem c19_cl_sets_length :
  forall r h v,
    forbidden h = false -> equiv "Content-Length" h = true -> parse_usize (hvalue h) = Some v ->
    add_header r h = set_length r (Some v).
Proof. exact cl_sets_length. Qed.
Print Assumptions c19_cl_sets_length.

Theorem c19_bad_cl_ignored :
  forall r h,
    forbidden h = false -> equiv "Content-Length" h = true -> parse_usize (hvalue h) = None ->
    add_header r h = r.
Proof. exact bad_cl_ignored. Qed.
Print Assumptions c19_bad_cl_ignored.

Theorem c19_constructor_lengths :
  forall d st,
    data_length (from_data d) = Some (len d) /\ rbody (from_data d) = d /\
    data_length (from_string d) = Some (len d) /\ rbody (from_string d) = d /\
    data_length (empty_response st) = Some 0%N /\ rbody (empty_response st) = [].
Proof. exact constructor_lengths. Qed.
Print Assumptions c19_constructor_lengths.

(* non-vacuity: protected names dropped, second Content-Type replaces the first in place *)
Example c19_example :
  keep [mkH (s "X-A") (s "1"); mkH (s "content-type") (s "a/b"); mkH (s "CONNECTION") (s "close");
        mkH (s "X-A") (s "2"); mkH (s "Content-Type") (s "c/d"); mkH (s "Content-Length") (s "7")]
  = [mkH (s "X-A") (s "1"); mkH (s "content-type") (s "c/d"); mkH (s "X-A") (s "2")].
Proof. vm_compute. reflexivity. Qed.
