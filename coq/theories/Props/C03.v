(* Props/C03.v — the body readable from a request is exactly the byte sequence its framing
   designates; reading ends with end-of-stream exactly at that boundary, whatever buffer sizes the
   application reads with. BODY SIDE: the statements are about the reader a request owns
   (Http/Body.v) on the stream as `serve_loop` hands it over, for the repaired tree (cfg = fixed).
   Only statements; the proofs are in Http/BodyFacts.v, ChunkedFacts.v, ChunkedReader.v,
   StreamFacts.v, FramingFacts.v, C03Facts.v.

   Vocabulary (Http/BodyFacts.v):
     reads c ns r st al = (ps, en, r', st', al')
         the application reads with the buffer sizes ns in turn; ps = the pieces returned as data;
         en = None: all of ns used; en = Some x: x is the first result that was not data.
     all_pos ns         every buffer size is > 0
     pieces_fit ns ps   every piece is non-empty and no longer than the buffer it was read into
     stable r st        every further read returns REof and changes neither reader nor stream
   (Http/ChunkedFacts.v, ChunkedReader.v):
     size_line_ok sl n  sl is a chunk-size line (without CRLF) the decoder accepts as announcing n:
                        blanks, optional '+', hex digits in either case with any number of leading
                        zeros, value n < 2^64, blanks, optional ";extension" free of CR
     chunk_ok (sl, p)   size_line_ok sl (len p) and p <> []
     enc chs last tail  the chunks, the last-chunk line, CRLF (no trailers), then `tail`
     payload chs        the concatenated chunk payloads *)
From TH Require Import Base.Bytes Http.Response Http.Request Http.Body Http.Serve.
From TH Require Import Http.BodyFacts Http.ChunkedFacts Http.ChunkedReader Http.FramingBodyFacts Http.C03Facts.
Open Scope char_scope.

(* ---- 1. Content-Length: N (N > 1024 or Expect): the length-limited reader ----
   For ANY sequence of buffer sizes: the pieces are a prefix of the next N bytes, the connection
   stands exactly after the bytes delivered, a read never fails or blocks while the body is
   pending; end-of-stream comes exactly when all N bytes were delivered, with the connection
   exactly at the first byte after the body, and it is final; it does come once there are more
   reads than body bytes. *)
Theorem c03_limited_reads :
  forall body tail e ns al ps en r' st' al', all_pos ns ->
    reads fixed ns (BLimited (len body)) (mkS (body ++ tail) e) al = (ps, en, r', st', al') ->
    exists rest,
      body = List.concat ps ++ rest /\ st' = mkS (rest ++ tail) e /\ al' = al /\ pieces_fit ns ps /\
      (r' = BLimited (len rest) \/ (rest = [] /\ r' = BEmpty)) /\
      (en = None \/ en = Some REof) /\
      (en = None -> List.length ps = List.length ns) /\
      (en = Some REof -> rest = [] /\ List.concat ps = body /\ st' = mkS tail e /\ stable r' st') /\
      ((List.length body < List.length ns)%nat -> en = Some REof).
Proof. exact limited_reads. Qed.
Print Assumptions c03_limited_reads.

(* the handler loop "obtain up to m bytes with an n-byte buffer": exactly the first min(m, N) body
   bytes; end-of-stream is reported iff more than N were asked for; fuel N+1 is enough (Serve.v
   passes |pending bytes|+1) *)
Theorem c03_limited_take :
  forall body tail e fuel m n al acc, (0 < n)%nat -> (List.length body < fuel)%nat ->
    exists acc' en got rest r',
      take fixed fuel m n (BLimited (len body)) (mkS (body ++ tail) e) al acc = (acc', en, r', mkS (rest ++ tail) e, al) /\
      pieces_bytes acc' = pieces_bytes acc ++ got /\ body = got ++ rest /\
      (((len body < m)%N /\ en = EndEof /\ rest = []) \/ ((m <= len body)%N /\ en = EndCount /\ len got = m)) /\
      fst (body_drop fixed r' (mkS (rest ++ tail) e) al) = mkS tail e.
Proof. exact limited_take. Qed.
Print Assumptions c03_limited_take.

(* ---- 2. Content-Length: N <= 1024 without Expect: the pre-read body ----
   Same, and the connection is not touched at all. *)
Theorem c03_buffered_reads :
  forall body st ns al ps en r' st' al', all_pos ns ->
    reads fixed ns (BBuffered body) st al = (ps, en, r', st', al') ->
    st' = st /\ al' = al /\
    exists rest,
      body = List.concat ps ++ rest /\ r' = BBuffered rest /\ pieces_fit ns ps /\
      (en = None \/ en = Some REof) /\
      (en = None -> List.length ps = List.length ns) /\
      (en = Some REof -> rest = [] /\ List.concat ps = body /\ stable r' st') /\
      ((List.length body < List.length ns)%nat -> en = Some REof).
Proof. exact buffered_reads. Qed.
Print Assumptions c03_buffered_reads.

Theorem c03_buffered_take :
  forall body st fuel m n al acc, (0 < n)%nat -> (List.length body < fuel)%nat ->
    exists acc' en got rest,
      take fixed fuel m n (BBuffered body) st al acc = (acc', en, BBuffered rest, st, al) /\
      pieces_bytes acc' = pieces_bytes acc ++ got /\ body = got ++ rest /\
      (((len body < m)%N /\ en = EndEof /\ rest = []) \/ ((m <= len body)%N /\ en = EndCount /\ len got = m)).
Proof. exact buffered_take. Qed.
Print Assumptions c03_buffered_take.

(* ---- 3. Transfer-Encoding: the chunked reader ---- *)
(* on every accepted size line the decoder obtains exactly the announced size and consumes exactly
   the line and its CRLF *)
Theorem c03_chunk_size_line :
  forall sl n rest e, size_line_ok sl n ->
    read_chunk_size (mkS (sl ++ CRLF ++ rest) e) = (DOk n, mkS rest e).
Proof. exact read_chunk_size_ok. Qed.
Print Assumptions c03_chunk_size_line.

(* ... and the decoder accepts no other lines: size_line_ok is exactly what the code accepts *)
Theorem c03_chunk_size_line_complete :
  forall sl rest e n st', no_cr sl = true ->
    read_chunk_size (mkS (sl ++ CRLF ++ rest) e) = (DOk n, st') ->
    size_line_ok sl n /\ st' = mkS rest e.
Proof. exact read_chunk_size_complete. Qed.
Print Assumptions c03_chunk_size_line_complete.

(* the canonical lower-case rendering of any size below 2^64 is an accepted line *)
Theorem c03_size_line_canonical : forall n, (n < USIZE_BOUND)%N -> size_line_ok (print_hex n) n.
Proof. exact size_line_print_hex. Qed.
Print Assumptions c03_size_line_canonical.

(* For ANY chunking with accepted size lines and ANY sequence of buffer sizes: the pieces are a
   prefix of the concatenated payloads; no read fails or blocks; end-of-stream comes exactly when
   all payload bytes were delivered, with the connection exactly at the first byte after the
   terminating CRLF, and it is final. (The finality is the FusedReader around the decoder — reader
   BEmpty in the model: the decoder itself has no terminal state and would read the next request
   as a chunk-size line, see c03_example_unfused_decoder below.) *)
Theorem c03_chunked_reads :
  forall chs last tail e, Forall chunk_ok chs -> size_line_ok last 0 ->
  forall ns al ps en r' st' al', all_pos ns ->
    reads fixed ns (BChunked None false) (mkS (enc chs last tail) e) al = (ps, en, r', st', al') ->
    exists rest,
      payload chs = List.concat ps ++ rest /\ al' = al /\ pieces_fit ns ps /\
      (en = None \/ en = Some REof) /\
      (en = None -> List.length ps = List.length ns) /\
      (en = Some REof -> rest = [] /\ List.concat ps = payload chs /\ st' = mkS tail e /\ stable r' st') /\
      ((List.length (payload chs) < List.length ns)%nat -> en = Some REof).
Proof. exact chunked_reads. Qed.
Print Assumptions c03_chunked_reads.

Theorem c03_chunked_take :
  forall chs last tail e, Forall chunk_ok chs -> size_line_ok last 0 ->
  forall fuel m n al acc, (0 < n)%nat -> (List.length (payload chs) < fuel)%nat ->
    exists acc' en got rest r' st',
      take fixed fuel m n (BChunked None false) (mkS (enc chs last tail) e) al acc = (acc', en, r', st', al) /\
      pieces_bytes acc' = pieces_bytes acc ++ got /\ payload chs = got ++ rest /\
      (((len (payload chs) < m)%N /\ en = EndEof /\ rest = [] /\ st' = mkS tail e /\ stable r' st') \/
       ((m <= len (payload chs))%N /\ en = EndCount /\ len got = m)) /\
      fst (body_drop fixed r' st' al) = mkS tail e.
Proof. exact chunked_take. Qed.
Print Assumptions c03_chunked_take.

(* decode . encode = id: reading everything, with the fuel the handler loop of Serve.v uses *)
Theorem c03_chunked_decode_encode :
  forall chs last tail e, Forall chunk_ok chs -> size_line_ok last 0 ->
  forall n al, (0 < n)%nat -> (len (payload chs) < ALL)%N ->
    exists acc' r',
      take fixed (S (List.length (sbytes (mkS (enc chs last tail) e)) + 0)) ALL n
           (BChunked None false) (mkS (enc chs last tail) e) al [] = (acc', EndEof, r', mkS tail e, al) /\
      pieces_bytes acc' = payload chs /\ stable r' (mkS tail e).
Proof. exact chunked_decode_encode. Qed.
Print Assumptions c03_chunked_decode_encode.

(* ---- 4. protocol upgrade: the rest of the connection, verbatim ---- *)
Theorem c03_upgrade_reads :
  forall x e ns al ps en r' st' al', all_pos ns ->
    reads fixed ns BUpgrade (mkS x e) al = (ps, en, r', st', al') ->
    r' = BUpgrade /\ al' = al /\ x = List.concat ps ++ sbytes st' /\ seof st' = e /\ pieces_fit ns ps /\
    ((en = None /\ List.length ps = List.length ns) \/
     (sbytes st' = [] /\ List.concat ps = x /\ en = Some (if e then REof else RBlock))).
Proof. exact upgrade_reads_final. Qed.
Print Assumptions c03_upgrade_reads.

(* ---- which reader, which declared length (request.rs:143-227) ---- *)
(* everything `framing fixed` decides when it accepts a request *)
Theorem c03_framing :
  forall hs k bl ex, framing fixed hs = FrOk k bl ex ->
    exists cl0 : option N,
      match header_value "Content-Length" hs with
      | None => cl0 = None
      | Some v => v <> [] /\ forallb is_digit v = true /\ parse_dec v = cl0 /\ cl0 <> None
      end /\
      bl = match header_value "Transfer-Encoding" hs with Some _ => None | None => cl0 end /\
      ex = match header_value "Expect" hs with Some _ => true | None => false end /\
      k = kind_of (wants_upgrade hs) bl
            match header_value "Transfer-Encoding" hs with Some _ => true | None => false end ex.
Proof. exact framing_fixed_char. Qed.
Print Assumptions c03_framing.

(* a transfer coding takes precedence over any Content-Length *)
Theorem c03_te_beats_cl :
  forall hs te k bl ex, header_value "Transfer-Encoding" hs = Some te ->
    framing fixed hs = FrOk k bl ex ->
    bl = None /\ k = if wants_upgrade hs then KUpgrade else KChunked.
Proof. exact framing_te. Qed.
Print Assumptions c03_te_beats_cl.

(* the declared length is reported when there is one *)
Theorem c03_body_length :
  forall hs N k bl ex, (N < USIZE_BOUND)%N -> header_value "Transfer-Encoding" hs = None ->
    header_value "Content-Length" hs = Some (print_dec N) -> framing fixed hs = FrOk k bl ex ->
    bl = Some N /\ k = kind_of (wants_upgrade hs) (Some N) false ex.
Proof. exact framing_cl_print. Qed.
Print Assumptions c03_body_length.

(* ... for every accepted spelling (leading zeros) *)
Theorem c03_body_length_any :
  forall hs v k bl ex, header_value "Transfer-Encoding" hs = None ->
    header_value "Content-Length" hs = Some v -> framing fixed hs = FrOk k bl ex ->
    exists n, parse_dec v = Some n /\ v <> [] /\ forallb is_digit v = true /\ bl = Some n /\
              k = kind_of (wants_upgrade hs) (Some n) false ex.
Proof. exact framing_cl. Qed.
Print Assumptions c03_body_length_any.

Theorem c03_no_framing_empty :
  forall hs k bl ex, header_value "Transfer-Encoding" hs = None ->
    header_value "Content-Length" hs = None -> framing fixed hs = FrOk k bl ex ->
    bl = None /\ k = if wants_upgrade hs then KUpgrade else KEmpty.
Proof. exact framing_none. Qed.
Print Assumptions c03_no_framing_empty.

Theorem c03_upgrade_kind :
  forall hs k bl ex, wants_upgrade hs = true -> framing fixed hs = FrOk k bl ex -> k = KUpgrade.
Proof. exact framing_upgrade. Qed.
Print Assumptions c03_upgrade_kind.

(* requests without Expect and with a valid or no Content-Length are accepted *)
Theorem c03_framing_accepts :
  forall hs, header_value "Expect" hs = None ->
    match header_value "Content-Length" hs with
    | None => True
    | Some v => v <> [] /\ forallb is_digit v = true /\ parse_dec v <> None
    end ->
    exists k bl, framing fixed hs = FrOk k bl false.
Proof. exact framing_accepts. Qed.
Print Assumptions c03_framing_accepts.

(* ================= non-vacuity ================= *)
(* a chunked body in three chunks — plain, upper-case size with leading zeros and blanks, with an
   extension — a last-chunk line with an extension, followed by the next request *)
Definition c03_chunks : list chunk :=
  [ (s "5", s "hello");
    (s " 000A ", s ", chunked ");
    (s "+6;name=value", s "world!") ].
Definition c03_last : bytes := s "000;end".
Definition c03_tail : bytes := s "GET /next HTTP/1.1" ++ CRLF ++ CRLF.
Definition c03_wire : bytes := enc c03_chunks c03_last c03_tail.

Example c03_example_wire :
  c03_wire = s "5" ++ CRLF ++ s "hello" ++ CRLF ++ s " 000A " ++ CRLF ++ s ", chunked " ++ CRLF ++
             s "+6;name=value" ++ CRLF ++ s "world!" ++ CRLF ++ s "000;end" ++ CRLF ++ CRLF ++ c03_tail
  /\ payload c03_chunks = s "hello, chunked world!".
Proof. split; reflexivity. Qed.

Example c03_example_chunks_ok : Forall chunk_ok c03_chunks /\ size_line_ok c03_last 0.
Proof.
  split; [repeat constructor; try discriminate|].
  - exists [], [], (s "5"), [], []. vm_compute. repeat split; auto; discriminate.
  - exists [" "], [], (s "000A"), [" "], []. vm_compute. repeat split; auto; discriminate.
  - exists [], ["+"], (s "6"), [], (s ";name=value"). vm_compute. repeat split; auto; try discriminate.
    right. eexists. split; reflexivity.
  - exists [], [], (s "000"), [], (s ";end"). vm_compute. repeat split; auto; try discriminate.
    right. eexists. split; reflexivity.
Qed.

Example c03_example_chunked_reads :
  reads fixed [1; 2; 1024; 7; 1; 3; 9; 5]%nat (BChunked None false) (mkS c03_wire false) [] =
  ([s "h"; s "el"; s "lo"; s ", chunk"; s "e"; s "d "; s "world!"], Some REof, BEmpty, mkS c03_tail false, []).
Proof. vm_compute. reflexivity. Qed.

Example c03_example_chunked_take :
  let '(acc, en, r, st, al) := take fixed (S (List.length c03_wire + 0)) ALL 4 (BChunked None false) (mkS c03_wire true) [] [] in
  (pieces_bytes acc, en, r, st) = (s "hello, chunked world!", EndEof, BEmpty, mkS c03_tail true).
Proof. vm_compute. reflexivity. Qed.

(* without the fuse the decoder would go on: it reads the next request line as a chunk-size line *)
Example c03_example_unfused_decoder :
  dec_read 16 None (mkS c03_tail false) = (RErr, None, mkS CRLF false).
Proof. vm_compute. reflexivity. Qed.

Example c03_example_limited_reads :
  reads fixed [2; 1; 5; 5]%nat (BLimited 6) (mkS (s "abcdef" ++ c03_tail) false) [] =
  ([s "ab"; s "c"; s "def"], Some REof, BEmpty, mkS c03_tail false, []).
Proof. vm_compute. reflexivity. Qed.

Example c03_example_buffered_reads :
  reads fixed [4; 4; 4]%nat (BBuffered (s "abcdef")) (mkS c03_tail false) [] =
  ([s "abcd"; s "ef"], Some REof, BBuffered [], mkS c03_tail false, []).
Proof. vm_compute. reflexivity. Qed.

Example c03_example_upgrade_reads :
  reads fixed [4; 100; 4]%nat BUpgrade (mkS (s "raw bytes") true) [] =
  ([s "raw "; s "bytes"], Some REof, BUpgrade, mkS [] true, []).
Proof. vm_compute. reflexivity. Qed.

Example c03_example_framing :
  framing fixed [mkH (s "Content-Length") (s "7"); mkH (s "Transfer-Encoding") (s "chunked")] = FrOk KChunked None false /\
  framing fixed [mkH (s "Content-Length") (s "2000")] = FrOk (KLimited 2000) (Some 2000%N) false /\
  framing fixed [mkH (s "content-length") (s "007")] = FrOk (KBuffered 7) (Some 7%N) false /\
  framing fixed [mkH (s "Content-Length") (s "7"); mkH (s "Expect") (s "100-continue")] = FrOk (KLimited 7) (Some 7%N) true /\
  framing fixed [mkH (s "Host") (s "x")] = FrOk KEmpty None false /\
  framing fixed [mkH (s "Connection") (s "keep-alive, Upgrade"); mkH (s "Content-Length") (s "7")] = FrOk KUpgrade (Some 7%N) false.
Proof. vm_compute. repeat split; reflexivity. Qed.
