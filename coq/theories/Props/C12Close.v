(* Props/C12Close.v — C12, closing clause: "… once all received requests have been answered the server closes its
   sending side, so the client sees end-of-stream right after the last response. … when the client closes its sending
   side, the requests already received are still answered before the server closes."
   Statements only; model and proofs in Conc/ConnClose.v (the writer chain of Conc/SeqWriter.v wrapped with the
   ownership of the shared BufWriter/socket half: the builder's Arc handle lives in the connection thread, every
   response writer holds a clone; the last handle released flushes the BufWriter and calls shutdown(Write)).
   ALL label sequences, any number of requests and threads, any interleaving; `cstep … = None` means the label is
   not enabled (the calling thread blocks, or the operation does not exist any more); `true` = the repaired tree;
   `cap` = the BufWriter capacity (1024 in src/client.rs:63), every theorem holds for every capacity.
   Reading: writer i undropped = request i received and not yet answered/dropped; builder_alive = the connection
   thread still reads requests; `wire` = bytes the client can read; wr_closed = the client reads end-of-stream after them. *)
From Coq Require Import List Arith Bool Lia.
Import ListNotations.
From TH Require Import Conc.SeqWriter Conc.SeqWriterFacts Conc.ConnClose.

(* 0. the wrapper only restricts the chain (New needs the builder): the run of the underlying chain is the run of
      Conc/SeqWriter.v on the same labels, so C01 / C06 (order, no interleaving, dropped requests) apply unchanged *)
Theorem c12_refines_writer_chain :
  forall (byte : Type) (cap : nat) (fixed : bool) (ls : list (clabel byte)) (s : cst byte),
    crun byte cap fixed (cinit byte) ls = Some s ->
    run byte fixed (init byte) (proj byte ls) = Some (sw byte s).
Proof. intros byte cap fixed ls s H. exact (crun_proj byte cap fixed ls _ s H). Qed.
Print Assumptions c12_refines_writer_chain.

(* 1. the sending side is closed exactly when the connection thread has ended and every writer was dropped,
      i.e. when the Arc count is 0 *)
Theorem c12_closed_iff_all_handles_gone :
  forall (byte : Type) (cap : nat) (ls : list (clabel byte)) (s : cst byte),
    crun byte cap true (cinit byte) ls = Some s ->
    (wr_closed byte s = true <->
     builder_alive byte s = false /\
     forall i w, nth_error (ws byte (sw byte s)) i = Some w -> dropped byte w = true) /\
    (wr_closed byte s = true <-> handles byte s = 0).
Proof.
  intros byte cap ls s H. assert (Hr : creachable byte cap s) by (exists ls; exact H).
  split; [exact (closed_iff_all_handles_gone byte cap s Hr)|exact (closed_iff_no_handles byte cap s Hr)].
Qed.
Print Assumptions c12_closed_iff_all_handles_gone.

(* 2. while the connection thread runs, or some received request is still unanswered, the sending side is open *)
Theorem c12_not_closed_while_unanswered :
  forall (byte : Type) (cap : nat) (ls : list (clabel byte)) (s : cst byte),
    crun byte cap true (cinit byte) ls = Some s ->
    builder_alive byte s = true \/
      (exists i w, nth_error (ws byte (sw byte s)) i = Some w /\ dropped byte w = false) ->
    wr_closed byte s = false.
Proof. intros byte cap ls s H. apply (not_closed_while_unanswered byte cap). exists ls; exact H. Qed.
Print Assumptions c12_not_closed_while_unanswered.

(* 3. the close is final: afterwards NO label is enabled (no new writer, no write, flush or drop), so nothing can
      follow the end-of-stream; and along any run the state is open before every label that still executes *)
Theorem c12_close_is_final :
  forall (byte : Type) (cap : nat) (ls : list (clabel byte)) (s : cst byte) (l : clabel byte),
    crun byte cap true (cinit byte) ls = Some s -> wr_closed byte s = true ->
    cstep byte cap true s l = None.
Proof. intros byte cap ls s l H. apply (close_is_final byte cap). exists ls; exact H. Qed.
Print Assumptions c12_close_is_final.

Theorem c12_closed_only_at_end :
  forall (byte : Type) (cap : nat) (l1 : list (clabel byte)) (l : clabel byte) (l2 : list (clabel byte))
         (s1 s' : cst byte),
    crun byte cap true (cinit byte) l1 = Some s1 -> crun byte cap true (cinit byte) (l1 ++ l :: l2) = Some s' ->
    wr_closed byte s1 = false.
Proof.
  intros byte cap l1 l l2 s1 s'. apply (closed_only_at_end byte cap). apply creachable_init.
Qed.
Print Assumptions c12_closed_only_at_end.

(* 4. at the close every byte of every response is on the socket, in request order, and the buffer is empty:
      end-of-stream comes right after the last response byte *)
Theorem c12_everything_on_the_wire_at_close :
  forall (byte : Type) (cap : nat) (ls : list (clabel byte)) (s : cst byte),
    crun byte cap true (cinit byte) ls = Some s -> wr_closed byte s = true ->
    wire byte s = concat (map (sent byte) (ws byte (sw byte s))) /\ buffered byte s = [] /\
    wire byte s = stream byte (sw byte s).
Proof. intros byte cap ls s H. apply (everything_on_the_wire_at_close byte cap). exists ls; exact H. Qed.
Print Assumptions c12_everything_on_the_wire_at_close.

(* the step that closes is a BuilderDrop or a DropW; it adds exactly the rest of the buffer to the wire *)
Theorem c12_closing_step :
  forall (byte : Type) (cap : nat) (ls : list (clabel byte)) (s s' : cst byte) (l : clabel byte),
    crun byte cap true (cinit byte) ls = Some s -> cstep byte cap true s l = Some s' ->
    wr_closed byte s = false -> wr_closed byte s' = true ->
    (l = BuilderDrop byte \/ exists i, l = CL byte (DropW byte i)) /\
    wire byte s' = wire byte s ++ buffered byte s /\
    wire byte s' = concat (map (sent byte) (ws byte (sw byte s'))) /\
    stream byte (sw byte s') = stream byte (sw byte s).
Proof. intros byte cap ls s s' l H. apply (closing_step byte cap). exists ls; exact H. Qed.
Print Assumptions c12_closing_step.

(* before the close: wire ++ buffer = the ordered concatenation of the response blocks, the buffer never exceeds
   the capacity, and bytes once on the wire stay there *)
Theorem c12_wire_then_buffer :
  forall (byte : Type) (cap : nat) (ls : list (clabel byte)) (s : cst byte),
    crun byte cap true (cinit byte) ls = Some s ->
    wire byte s ++ buffered byte s = concat (map (sent byte) (ws byte (sw byte s))) /\
    length (buffered byte s) <= cap.
Proof. intros byte cap ls s H. apply (wire_buffer_split byte cap). exists ls; exact H. Qed.
Print Assumptions c12_wire_then_buffer.

Theorem c12_wire_grows :
  forall (byte : Type) (cap : nat) (fixed : bool) (s s' : cst byte) (l : clabel byte),
    cstep byte cap fixed s l = Some s' -> exists x, wire byte s' = wire byte s ++ x.
Proof. intros byte cap fixed s s' l. apply wire_grows. Qed.
Print Assumptions c12_wire_grows.

Theorem c12_flush_puts_on_wire :
  forall (byte : Type) (cap : nat) (ls : list (clabel byte)) (s s' : cst byte) (i : nat),
    crun byte cap true (cinit byte) ls = Some s -> cstep byte cap true s (CL byte (Flush byte i)) = Some s' ->
    wire byte s' = stream byte (sw byte s') /\ buffered byte s' = [] /\
    wire byte s' = concat (map (sent byte) (ws byte (sw byte s'))).
Proof. intros byte cap ls s s' i H. apply (flush_puts_on_wire byte cap). exists ls; exact H. Qed.
Print Assumptions c12_flush_puts_on_wire.

(* 5. the server does close: once the connection thread has ended, dropping the remaining writers in index order
      (drop_rest: nothing if none is left, else DropW k … DropW (n-1) for the least undropped k) is executable and
      ends closed with every byte handed to the sink on the wire *)
Theorem c12_close_eventually :
  forall (byte : Type) (cap : nat) (ls : list (clabel byte)) (s : cst byte),
    crun byte cap true (cinit byte) ls = Some s -> builder_alive byte s = false ->
    exists s', crun byte cap true s (drop_rest byte s) = Some s' /\ wr_closed byte s' = true /\
      wire byte s' = stream byte (sw byte s) /\ length (ws byte (sw byte s')) = length (ws byte (sw byte s)).
Proof. intros byte cap ls s H. apply (close_eventually byte cap). exists ls; exact H. Qed.
Print Assumptions c12_close_eventually.

(* the connection thread can always end (client closed, last request seen, refusal), whatever the writers do *)
Theorem c12_connection_thread_can_end :
  forall (byte : Type) (cap : nat) (fixed : bool) (s : cst byte),
    builder_alive byte s = true ->
    exists s', cstep byte cap fixed s (BuilderDrop byte) = Some s' /\ builder_alive byte s' = false /\
      sw byte s' = sw byte s.
Proof. exact builder_drop_enabled. Qed.
Print Assumptions c12_connection_thread_can_end.

(* 6. the client closes its sending side (the connection thread ends) while requests k, k+1, … are unanswered:
      they are still answered — here each by arbitrary writes and flushes followed by the drop, in arrival order —
      nothing blocks, the state is open before every one of these labels, all the answers reach the socket, and the
      close comes with the last drop *)
Theorem c12_half_close_requests_still_answered :
  forall (byte : Type) (cap : nat) (ls : list (clabel byte)) (s : cst byte) (k : nat) (opss : list (list (op byte))),
    crun byte cap true (cinit byte) ls = Some s -> builder_alive byte s = false ->
    least_undropped byte (ws byte (sw byte s)) = Some k -> length (ws byte (sw byte s)) = k + length opss ->
    exists s', crun byte cap true s (map (CL byte) (arrival byte k opss)) = Some s' /\ wr_closed byte s' = true /\
      wire byte s' = stream byte (sw byte s) ++ concat (map (data byte) opss) /\
      wire byte s' = concat (map (sent byte) (ws byte (sw byte s'))) /\
      (forall s1 l1 l l2, map (CL byte) (arrival byte k opss) = l1 ++ l :: l2 ->
         crun byte cap true s l1 = Some s1 -> wr_closed byte s1 = false).
Proof. intros byte cap ls s k opss H. apply (answered_then_closed byte cap). exists ls; exact H. Qed.
Print Assumptions c12_half_close_requests_still_answered.

(* … and whatever the interleaving was so far, the oldest unanswered request can always be written to, flushed
   and dropped, before or after the connection thread has ended *)
Theorem c12_oldest_unanswered_never_blocked :
  forall (byte : Type) (cap : nat) (ls : list (clabel byte)) (s : cst byte) (k : nat),
    crun byte cap true (cinit byte) ls = Some s -> least_undropped byte (ws byte (sw byte s)) = Some k ->
    wr_closed byte s = false /\
    (forall d, exists s', cstep byte cap true s (CL byte (Write byte k d)) = Some s') /\
    (exists s', cstep byte cap true s (CL byte (Flush byte k)) = Some s') /\
    (exists s', cstep byte cap true s (CL byte (DropW byte k)) = Some s').
Proof. intros byte cap ls s k H. apply (half_closed_still_answerable byte cap). exists ls; exact H. Qed.
Print Assumptions c12_oldest_unanswered_never_blocked.

(* ---------- non-vacuity (bytes = nat; observations after each label: (closed, wire, buffer)) ---------- *)
Local Notation N_ := (CL nat (New nat)).
Local Notation W_ i d := (CL nat (Write nat i d)).
Local Notation F_ i := (CL nat (Flush nat i)).
Local Notation D_ i := (CL nat (DropW nat i)).
Local Notation B_ := (BuilderDrop nat).

(* two requests; the thread answering request 1 comes first and is blocked; request 0 is answered; the connection
   thread ends in between; request 1 is answered: the close happens exactly at the last DropW, with the buffered
   rest of response 1 flushed (capacity 4: [3;4;5] stays in the buffer until then) *)
Example c12_example_out_of_order_blocked :
  crun nat 4 true (cinit nat) [N_; N_; W_ 1 [3; 4; 5]] = None /\
  crun nat 4 true (cinit nat) [N_; N_; D_ 1] = None.
Proof. vm_compute. split; reflexivity. Qed.

Example c12_example_close_at_last_drop :
  ctrace nat 4 true (cinit nat) [N_; N_; W_ 0 [1; 2]; B_; F_ 0; D_ 0; W_ 1 [3; 4; 5]; D_ 1] =
    [(false, [], []); (false, [], []); (false, [], [1; 2]); (false, [], [1; 2]); (false, [1; 2], []);
     (false, [1; 2], []); (false, [1; 2], [3; 4; 5]); (true, [1; 2; 3; 4; 5], [])].
Proof. vm_compute. reflexivity. Qed.

(* the same with the real capacity: nothing reaches the socket before the explicit flush / the close *)
Example c12_example_close_at_last_drop_1024 :
  ctrace nat 1024 true (cinit nat) [N_; N_; W_ 0 [1; 2]; B_; D_ 0; W_ 1 [3; 4; 5]; D_ 1] =
    [(false, [], []); (false, [], []); (false, [], [1; 2]); (false, [], [1; 2]);
     (false, [], [1; 2]); (false, [], [1; 2; 3; 4; 5]); (true, [1; 2; 3; 4; 5], [])].
Proof. vm_compute. reflexivity. Qed.

(* all requests answered first, the connection thread ends last (keep-alive connection the client closes later):
   the close happens at BuilderDrop *)
Example c12_example_close_at_builder_drop :
  ctrace nat 4 true (cinit nat) [N_; W_ 0 [1]; D_ 0; N_; W_ 1 [2]; D_ 1; B_] =
    [(false, [], []); (false, [], [1]); (false, [], [1]); (false, [], [1]); (false, [], [1; 2]);
     (false, [], [1; 2]); (true, [1; 2], [])].
Proof. vm_compute. reflexivity. Qed.

(* after the close nothing is enabled; after BuilderDrop no new writer *)
Example c12_example_nothing_after_close :
  crun nat 4 true (cinit nat) [N_; W_ 0 [1]; B_; D_ 0; N_] = None /\
  crun nat 4 true (cinit nat) [N_; W_ 0 [1]; B_; D_ 0; W_ 0 [2]] = None /\
  crun nat 4 true (cinit nat) [N_; W_ 0 [1]; B_; D_ 0; B_] = None /\
  crun nat 4 true (cinit nat) [N_; B_; N_] = None.
Proof. vm_compute. repeat split. Qed.

(* the BufWriter rules (capacity 4): a write that does not fit flushes first; a write >= capacity bypasses the
   buffer (after flushing it); a write that fills the buffer exactly stays buffered *)
Example c12_example_bufwriter :
  ctrace nat 4 true (cinit nat) [N_; W_ 0 [1; 2; 3]; W_ 0 [4; 5]; W_ 0 [6; 7]; W_ 0 [8; 9; 10; 11; 12]; W_ 0 [13]] =
    [(false, [], []); (false, [], [1; 2; 3]); (false, [1; 2; 3], [4; 5]); (false, [1; 2; 3], [4; 5; 6; 7]);
     (false, [1; 2; 3; 4; 5; 6; 7; 8; 9; 10; 11; 12], []); (false, [1; 2; 3; 4; 5; 6; 7; 8; 9; 10; 11; 12], [13])].
Proof. vm_compute. reflexivity. Qed.

(* drop_rest: three requests received, one partly answered, the connection thread ended: dropping 0, 1, 2 closes *)
Example c12_example_drop_rest :
  match crun nat 4 true (cinit nat) [N_; N_; N_; W_ 0 [1]; B_] with
  | Some s => builder_alive nat s = false /\ drop_rest nat s = [D_ 0; D_ 1; D_ 2] /\
              ctrace nat 4 true s (drop_rest nat s) = [(false, [], [1]); (false, [], [1]); (true, [1], [])]
  | None => False
  end.
Proof. vm_compute. repeat split. Qed.

(* the hypotheses of c12_half_close_requests_still_answered on a concrete state: request 0 answered, requests 1
   and 2 received, the client half-closes; 1 is answered by two writes and a flush, 2 by one write *)
Example c12_example_half_close :
  match crun nat 4 true (cinit nat) [N_; N_; W_ 0 [1]; D_ 0; N_; B_] with
  | Some s =>
      let opss := [[OWrite nat [2]; OFlush nat; OWrite nat [3]]; [OWrite nat [4]]] in
      builder_alive nat s = false /\ least_undropped nat (ws nat (sw nat s)) = Some 1 /\
      length (ws nat (sw nat s)) = 1 + length opss /\
      ctrace nat 4 true s (map (CL nat) (arrival nat 1 opss)) =
        [(false, [], [1; 2]); (false, [1; 2], []); (false, [1; 2], [3]); (false, [1; 2], [3]);
         (false, [1; 2], [3; 4]); (true, [1; 2; 3; 4], [])]
  | None => False
  end.
Proof. vm_compute. repeat split. Qed.
