(* Props/C07.v — each complete request is delivered exactly once; no lost wake-ups.
   Statements only; proofs are in Conc/MsgQueue.v. The model is the message queue of
   src/util/messages_queue.rs under ALL label sequences (any producers, receivers, call mix, notify
   choices, spurious wake-ups, timeouts, passage of time); MS = one millisecond in clock units,
   EPS = scheduling latency, both arbitrary. *)
From Coq Require Import List Arith Lia.
Import ListNotations.
From TH Require Import Conc.MsgQueue.

(* values returned by receive calls (in the order of their critical sections) followed by the values
   still queued are exactly the values pushed, in push order: nothing lost, duplicated or
   reordered; holds for the repaired and the as-found tree *)
Theorem c07_fifo_exactly_once :
  forall (V : Type) (MS : nat), 0 < MS -> forall (EPS : nat) (fixed : bool) (n : nat) (ls : list (label V)) (s : st V),
    run V MS EPS fixed (init V n) ls = Some s ->
    got V s ++ elems V (q V s) = pushed V s /\ tokrets V s + ntok V (q V s) = unblocks V s.
Proof. exact fifo_exactly_once. Qed.
Print Assumptions c07_fifo_exactly_once.

(* no lost wake-up (repaired tree): in every reachable state in which some receiver is blocked,
   every queued item has its own awake receiver *)
Theorem c07_no_lost_wakeup :
  forall (V : Type) (MS : nat), 0 < MS -> forall (EPS : nat) (n : nat) (ls : list (label V)) (s : st V),
    run V MS EPS true (init V n) ls = Some s ->
    0 < count (is_blocked) (rs V s) -> length (q V s) <= count (is_woken) (rs V s).
Proof. exact no_lost_wakeup. Qed.
Print Assumptions c07_no_lost_wakeup.

(* ... and an awake receiver can always take its next step, which removes the head of the queue *)
Theorem c07_woken_takes_head :
  forall (V : Type) (MS : nat), 0 < MS -> forall (EPS : nat) (s : st V) (t : nat) (r : rstate),
    nth_error (rs V s) t = Some r -> is_woken r = true -> q V s <> [] ->
    exists s', step V MS EPS true s (Resume V t) = Some s' /\ length (q V s') + 1 = length (q V s).
Proof. exact woken_takes_head. Qed.
Print Assumptions c07_woken_takes_head.

(* the tree as found violated it (defect D2, repaired): a notification reaching a timed receiver in
   its last millisecond is lost: an item stays queued, a receiver stays blocked, nobody is awake *)
Theorem c07_asfound_refuted :
  exists ls s, run nat 10 5 false (init nat 2) ls = Some s /\
    0 < count is_blocked (rs nat s) /\ ~ length (q nat s) <= count is_woken (rs nat s).
Proof. exact asfound_lost_wakeup. Qed.
Print Assumptions c07_asfound_refuted.

(* non-vacuity: the same schedule on the repaired tree hands the item to the timed receiver *)
Example c07_example_repaired :
  match run nat 10 5 true (init nat 2)
          [CallTimed nat 0 300; CallPop nat 1; Tick nat 294; Push nat 7 (Some 0); Resume nat 0] with
  | Some s => got nat s = [7] /\ q nat s = []
  | None => False
  end.
Proof. vm_compute. split; reflexivity. Qed.
