(* Props/C17.v — unblock releases exactly one receiver; timed / non-blocking receives keep bounds.
   Statements only; proofs are in Conc/MsgQueue.v (all label sequences, virtual time). *)
From Coq Require Import List Arith Lia.
Import ListNotations.
From TH Require Import Conc.MsgQueue.

(* each unblock token ends exactly one receive call and tokens never remove, duplicate or reorder a
   queued request: #calls returned by a token + #tokens still queued = #unblock calls, and the
   requests obey c07_fifo_exactly_once *)
Theorem c17_tokens_conserved :
  forall (V : Type) (MS : nat), 0 < MS -> forall (EPS : nat) (fixed : bool) (n : nat) (ls : list (label V)) (s : st V),
    run V MS EPS fixed (init V n) ls = Some s ->
    tokrets V s + ntok V (q V s) = unblocks V s /\ got V s ++ elems V (q V s) = pushed V s.
Proof. intros V MS HMS EPS fixed n ls s H. destruct (fifo_exactly_once V MS HMS EPS fixed n ls s H); auto. Qed.
Print Assumptions c17_tokens_conserved.

(* try_recv never blocks: the call is one step and leaves the receiver idle *)
Theorem c17_try_is_one_step :
  forall (V : Type) (MS EPS : nat) (fixed : bool) (s s' : st V) (t : nat),
    step V MS EPS fixed s (CallTry V t) = Some s' -> nth_error (rs V s') t = Some Idle.
Proof. exact try_is_one_step. Qed.
Print Assumptions c17_try_is_one_step.

(* a timed receive that returns empty-handed by time (not by a token) does so no earlier than
   T - 1 ms after it began ... *)
Theorem c17_timed_lower :
  forall (V : Type) (MS : nat), 0 < MS -> forall (EPS : nat) (fixed : bool) (n : nat) (ls : list (label V)) (s : st V),
    run V MS EPS fixed (init V n) ls = Some s ->
    forall t0 T t1, In (t0, T, t1) (tlog V s) -> T <= (t1 - t0) + MS.
Proof. exact timed_lower_bound. Qed.
Print Assumptions c17_timed_lower.

(* ... and no later than 2 T + EPS, EPS being the latency with which a timed wait is resumed after
   its deadline (the hypothesis is built into the enabledness of Tick, not an axiom) *)
Theorem c17_timed_upper :
  forall (V : Type) (MS : nat), 0 < MS -> forall (EPS : nat) (fixed : bool) (n : nat) (ls : list (label V)) (s : st V),
    run V MS EPS fixed (init V n) ls = Some s ->
    forall t0 T t1, In (t0, T, t1) (tlog V s) -> t1 <= t0 + 2 * T + EPS.
Proof. exact timed_upper_bound. Qed.
Print Assumptions c17_timed_upper.

(* non-vacuity: two unblocks release two receivers, the queued request is still delivered, in order;
   a timed receive of 30 ms on an empty queue returns at 30 ms *)
Example c17_example :
  match run nat 10 5 true (init nat 3)
          [CallPop nat 0; CallPop nat 1; Unblock nat (Some 0); Push nat 9 (Some 1); Unblock nat None;
           Resume nat 0; Resume nat 1; CallTry nat 2; CallTimed nat 2 300; Tick nat 300; Timeout nat 2; Resume nat 2] with
  | Some s => got nat s = [9] /\ tokrets nat s = 2 /\ unblocks nat s = 2 /\ tlog nat s = [(0, 300, 300)]
  | None => False
  end.
Proof. vm_compute. repeat split; reflexivity. Qed.
