(* Props/C07Glue.v — C07 / C17 at the level of the server API glue (src/lib.rs): Server::recv = pop,
   recv_timeout = pop_timeout, try_recv = try_pop, incoming_requests = repeated recv, unblock = unblock; each
   connection's worker pushes its requests in wire order.  Statements only; proofs are in Conc/MsgQueueFacts.v and
   Conc/MsgQueueCalls.v, on top of the invariants of Conc/MsgQueue.v.  All label sequences, any number of receivers,
   any mix of calls, spurious wake-ups, time-outs, passage of time; MS, EPS arbitrary.

   The observers are defined OUTSIDE the model by replaying the run:
     deliveries fixed s ls   = the list of (receiver, value) such that a step of that receiver (CallPop / CallTry /
                               CallTimed / Resume) made `got` grow by that value;
     token_returns fixed s i ls = the list of (position in ls, receiver) such that a step of that receiver made
                               `tokrets` grow (the call returned empty-handed BY A TOKEN);
     call_of ls (i, t)       = (t, number of Call labels of t among the first i+1 labels): the identity of the call. *)
From Coq Require Import List Arith Lia.
Import ListNotations.
From TH Require Import Conc.MsgQueue Conc.MsgQueueFacts Conc.MsgQueueCalls.

(* (1) the receiver-tagged log is exactly the global hand-out order; with FIFO-exactly-once: the log followed by the
   queued requests is the list of pushed requests *)
Theorem c07_log_is_got :
  forall (V : Type) (MS : nat), 0 < MS -> forall (EPS : nat) (fixed : bool) (n : nat) (ls : list (label V)) (s : st V),
    run V MS EPS fixed (init V n) ls = Some s ->
    exists log, deliveries V MS EPS fixed (init V n) ls = Some log /\
      map snd log = got V s /\ map snd log ++ elems V (q V s) = pushed V s.
Proof.
  intros V MS HMS EPS fixed n ls s H. destruct (log_exists V MS EPS fixed n ls s H) as [log Hd].
  exists log. split; [exact Hd|]. exact (log_is_got V MS HMS EPS fixed n ls s log H Hd).
Qed.
Print Assumptions c07_log_is_got.

(* every pushed request is in the log or still queued; if the pushed requests are pairwise distinct, no request is
   handed out twice, none to two receivers, and none that was handed out is still queued *)
Theorem c07_exactly_one_receiver :
  forall (V : Type) (MS : nat), 0 < MS -> forall (EPS : nat) (fixed : bool) (n : nat) (ls : list (label V)) (s : st V)
         (log : list (nat * V)),
    run V MS EPS fixed (init V n) ls = Some s -> deliveries V MS EPS fixed (init V n) ls = Some log ->
    (forall v, In v (pushed V s) <-> In v (map snd log) \/ In v (elems V (q V s))) /\
    (NoDup (pushed V s) ->
       NoDup (map snd log) /\ NoDup log /\
       (forall t1 t2 v, In (t1, v) log -> In (t2, v) log -> t1 = t2) /\
       (forall v, In v (map snd log) -> ~ In v (elems V (q V s)))).
Proof. exact exactly_one_receiver. Qed.
Print Assumptions c07_exactly_one_receiver.

(* (2) one receiver obtains its requests in push order: what receiver t got is a subsequence of what was pushed *)
Theorem c07_single_receiver_sees_push_order :
  forall (V : Type) (MS : nat), 0 < MS -> forall (EPS : nat) (fixed : bool) (n : nat) (ls : list (label V)) (s : st V)
         (log : list (nat * V)) (t : nat),
    run V MS EPS fixed (init V n) ls = Some s -> deliveries V MS EPS fixed (init V n) ls = Some log ->
    subseq (map snd (filter (fun e => fst e =? t) log)) (pushed V s).
Proof. exact single_receiver_sees_push_order. Qed.
Print Assumptions c07_single_receiver_sees_push_order.

(* connections: conn v = the connection request v arrived on. The requests of connection c that receiver t obtained
   are, in the order t obtained them, a subsequence of the requests of c in push order; hence, if connection c's
   worker pushes the requests vs in wire order (what it has pushed so far is a prefix of vs), a subsequence of vs —
   whatever other connections, receivers, unblocks and time-outs do *)
Theorem c07_connection_order_at_one_receiver :
  forall (V : Type) (MS : nat), 0 < MS -> forall (EPS : nat) (fixed : bool) (n : nat) (ls : list (label V)) (s : st V)
         (log : list (nat * V)) (t : nat) (conn : V -> nat) (c : nat),
    run V MS EPS fixed (init V n) ls = Some s -> deliveries V MS EPS fixed (init V n) ls = Some log ->
    let mine := filter (fun v => conn v =? c) (map snd (filter (fun e => fst e =? t) log)) in
    subseq mine (filter (fun v => conn v =? c) (pushed V s)) /\
    (forall vs rest, filter (fun v => conn v =? c) (pushed V s) ++ rest = vs -> subseq mine vs).
Proof. exact connection_order_at_one_receiver. Qed.
Print Assumptions c07_connection_order_at_one_receiver.

(* the pushed list is the sequence of values of the Push labels of the run (so "pushed in wire order" is a statement
   about the labels, i.e. about what the connection workers do) *)
Theorem c07_pushed_is_push_labels :
  forall (V : Type) (MS : nat), 0 < MS -> forall (EPS : nat) (fixed : bool) (n : nat) (ls : list (label V)) (s : st V),
    run V MS EPS fixed (init V n) ls = Some s -> pushed V s = flat_map (pushes V) ls.
Proof. intros V MS HMS EPS fixed n ls s H. exact (run_pushed V MS HMS EPS fixed ls _ _ H). Qed.
Print Assumptions c07_pushed_is_push_labels.

(* (3) C17: the calls released by a token, plus the tokens still queued, are as many as the Unblock labels of the
   run; the log entries are distinct steps of the run ... *)
Theorem c17_each_token_releases_exactly_one_call :
  forall (V : Type) (MS : nat), 0 < MS -> forall (EPS : nat) (fixed : bool) (n : nat) (ls : list (label V)) (s : st V),
    run V MS EPS fixed (init V n) ls = Some s ->
    exists log, token_returns V MS EPS fixed (init V n) 0 ls = Some log /\
      length log = tokrets V s /\
      length log + ntok V (q V s) = length (filter (is_unblock V) ls) /\
      NoDup (map fst log) /\
      Forall (fun e => fst e < length ls) log.
Proof. exact each_token_releases_exactly_one_call. Qed.
Print Assumptions c17_each_token_releases_exactly_one_call.

(* ... each entry (i, t) is a step of receiver t (label number i of the run is CallPop t, CallTry t, CallTimed t _ or
   Resume t) ... *)
Theorem c17_token_log_sound :
  forall (V : Type) (MS : nat), 0 < MS -> forall (EPS : nat) (fixed : bool) (n : nat) (ls : list (label V)) (log : list (nat * nat)),
    token_returns V MS EPS fixed (init V n) 0 ls = Some log ->
    Forall (fun e => exists l, nth_error ls (fst e) = Some l /\ actor V l = Some (snd e)) log.
Proof. exact token_returns_sound. Qed.
Print Assumptions c17_token_log_sound.

(* ... and the released calls are pairwise DISTINCT calls: (receiver, ordinal of the call of that receiver) never
   repeats, so n consumed tokens have released n different calls *)
Theorem c17_released_calls_are_distinct :
  forall (V : Type) (MS : nat), 0 < MS -> forall (EPS : nat) (fixed : bool) (n : nat) (ls : list (label V)) (s : st V) (log : list (nat * nat)),
    run V MS EPS fixed (init V n) ls = Some s -> token_returns V MS EPS fixed (init V n) 0 ls = Some log ->
    NoDup (map (call_of V ls) log).
Proof. exact token_returns_distinct_calls. Qed.
Print Assumptions c17_released_calls_are_distinct.

(* (4) "no request stays queued while a receiver remains blocked" (repaired queue), as a liveness statement.
   In every reachable state where the head of the queue is a request v and some receiver is blocked or awake, there
   is a receiver that is ALREADY awake and whose next step hands out exactly v ... *)
Theorem c07_blocked_head_served :
  forall (V : Type) (MS : nat), 0 < MS -> forall (EPS : nat) (n : nat) (ls : list (label V)) (s : st V) (v : V) (q' : list (item V)),
    run V MS EPS true (init V n) ls = Some s -> q V s = Elem V v :: q' ->
    (0 < count is_blocked (rs V s) \/ 0 < count is_woken (rs V s)) ->
    exists t s', (exists r, nth_error (rs V s) t = Some r /\ is_woken r = true) /\
      step V MS EPS true s (Resume V t) = Some s' /\
      got V s' = got V s ++ [v] /\ q V s' = q' /\ nth_error (rs V s') t = Some Idle.
Proof. exact blocked_head_served. Qed.
Print Assumptions c07_blocked_head_served.

(* ... and in every reachable state where some receiver is blocked, a schedule consisting ONLY of Resume steps of
   receivers that are already awake in that state (no Push, Unblock, Tick, Timeout, Spurious, no new call), one per
   queued item, empties the queue: every queued request is handed out, in order, every queued token is consumed *)
Theorem c07_blocked_receivers_get_served :
  forall (V : Type) (MS : nat), 0 < MS -> forall (EPS : nat) (n : nat) (ls : list (label V)) (s : st V),
    run V MS EPS true (init V n) ls = Some s -> 0 < count is_blocked (rs V s) ->
    exists ts s', run V MS EPS true s (map (Resume V) ts) = Some s' /\
      Forall (fun t => exists r, nth_error (rs V s) t = Some r /\ is_woken r = true) ts /\
      length ts = length (q V s) /\
      q V s' = [] /\ got V s' = got V s ++ elems V (q V s) /\ tokrets V s' = tokrets V s + ntok V (q V s) /\
      pushed V s' = pushed V s /\ unblocks V s' = unblocks V s /\ now V s' = now V s.
Proof. exact blocked_receivers_get_served. Qed.
Print Assumptions c07_blocked_receivers_get_served.

(* ---------- (5) non-vacuity ---------- *)
(* two connections (1: 101 102 103, 2: 201 202 203) pushed interleaved, two receivers, one unblock; receiver 1 barges
   in front of the woken receiver 0 *)
Definition ex_conn (v : nat) : nat := v / 100.
Definition ex_ls : list (label nat) :=
  [CallPop nat 0; Push nat 101 (Some 0); Push nat 201 None; CallTry nat 1; Resume nat 0;
   Push nat 102 None; Push nat 202 None; Unblock nat None; Push nat 103 None;
   CallPop nat 0; CallTimed nat 1 50; CallPop nat 0; CallPop nat 0; Push nat 203 None].

Example c07glue_example_run :
  match run nat 10 5 true (init nat 2) ex_ls with
  | Some s => pushed nat s = [101; 201; 102; 202; 103; 203] /\ got nat s = [101; 201; 102; 202; 103] /\
              q nat s = [Elem nat 203] /\ tokrets nat s = 1 /\ unblocks nat s = 1
  | None => False
  end.
Proof. vm_compute. repeat split; reflexivity. Qed.

Example c07glue_example_log :
  deliveries nat 10 5 true (init nat 2) ex_ls = Some [(1, 101); (0, 201); (0, 102); (1, 202); (0, 103)].
Proof. vm_compute. reflexivity. Qed.

(* the hypotheses of c07_exactly_one_receiver hold (pushed values distinct) *)
Example c07glue_example_nodup : NoDup [101; 201; 102; 202; 103; 203].
Proof. repeat (constructor; [cbn; intuition discriminate|]). constructor. Qed.

(* what receiver 0 saw of connection 1 and of connection 2; connection 1 pushes vs = 101 102 103 104 in wire order and
   has pushed the prefix 101 102 103 so far (hypothesis of c07_connection_order_at_one_receiver with rest = [104]) *)
Example c07glue_example_conn :
  let log := [(1, 101); (0, 201); (0, 102); (1, 202); (0, 103)] in
  filter (fun v => ex_conn v =? 1) (map snd (filter (fun e => fst e =? 0) log)) = [102; 103] /\
  filter (fun v => ex_conn v =? 2) (map snd (filter (fun e => fst e =? 0) log)) = [201] /\
  filter (fun v => ex_conn v =? 1) (map snd (filter (fun e => fst e =? 1) log)) = [101] /\
  filter (fun v => ex_conn v =? 1) [101; 201; 102; 202; 103; 203] ++ [104] = [101; 102; 103; 104].
Proof. vm_compute. repeat split; reflexivity. Qed.

(* the token log: label number 11 (the third call of receiver 0) was released by the one token *)
Example c07glue_example_tokens :
  token_returns nat 10 5 true (init nat 2) 0 ex_ls = Some [(11, 0)] /\
  map (call_of nat ex_ls) [(11, 0)] = [(0, 3)] /\
  length (filter (is_unblock nat) ex_ls) = 1.
Proof. vm_compute. repeat split; reflexivity. Qed.

(* liveness hypotheses are satisfiable: receiver 2 is blocked, 7 and 8 are queued, receivers 0 and 1 are awake; their
   two Resume steps alone hand out 7 and 8 *)
Example c07glue_example_liveness :
  match run nat 10 5 true (init nat 3)
          [CallPop nat 0; CallPop nat 1; CallTimed nat 2 300; Push nat 7 (Some 0); Push nat 8 (Some 1)] with
  | Some s => 0 < count is_blocked (rs nat s) /\ q nat s = [Elem nat 7; Elem nat 8] /\
              match run nat 10 5 true s (map (Resume nat) [0; 1]) with
              | Some s' => got nat s' = [7; 8] /\ q nat s' = []
              | None => False end
  | None => False
  end.
Proof. vm_compute. repeat split; reflexivity. Qed.
