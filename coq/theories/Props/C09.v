(* Props/C09.v — placeholder; theorems are added as the proofs land. *)
From TH Require Import Base.Bytes Http.Response Http.Request Http.Body Http.Serve.
Definition c09_witness : bytes :=
  s "POST /a HTTP/1.1" ++ CRLF ++ s "Transfer-Encoding: chunked" ++ CRLF ++ CRLF ++
  s "5" ++ CRLF ++ s "hello" ++ CRLF ++ s "0" ++ CRLF ++ CRLF ++ s "GET /b HTTP/1.1" ++ CRLF ++ CRLF.
Example c09_example_unread_chunked :
  map d_url (o_reqs (serve fixed (s "D") [] (mkA [] (FRespond 200 (s "ok") true)) c09_witness true)) = [s "/a"; s "/b"].
Proof. vm_compute. reflexivity. Qed.
Example c09_asfound_refuted :
  map d_url (o_reqs (serve asfound (s "D") [] (mkA [] (FRespond 200 (s "ok") true)) c09_witness true)) = [s "/a"].
Proof. vm_compute. reflexivity. Qed.
