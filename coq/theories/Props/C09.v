(* Props/C09.v — placeholder; theorems are added as the proofs land. *)
From TH Require Import Base.Bytes Http.Response Http.Request Http.Body Http.Serve.
Definition c09_witness : bytes :=
  s "POST /a HTTP/1.1" ++ CRLF ++ s "Transfer-Encoding: chunked" ++ CRLF ++ CRLF ++
  s "5" ++ CRLF ++ s "hello" ++ CRLF ++ s "0" ++ CRLF ++ CRLF ++ s "GET /b HTTP/1.1" ++ CRLF ++ CRLF.
Example c09_example_unread_chunked :
  map d_url (o_reqs (serve fixed (s "D") [] (mkA [] (FRespond 200 (s "ok") true)) c09_witness true)) = [s "/a"; s "/b"].
Proof. vm_compute. reflexivity. Qed.
Example c09_asfound_refuted :
  map d_url (o_reqs (serve asfound (s "D") [] (mkA [] (FRespond 200 (s "ok") true)) c09_witness true)) = [s "/a"].
Proof. vm_compute. reflexivity. Qed.

(* ==================================================================================================
   BODY SIDE of C09 (repaired tree): wherever the application stops reading the body — before the
   first read, after any sequence of reads with any buffer sizes, after end-of-stream — dropping
   the request leaves the connection exactly at `tail`, the first byte after the body: same bytes,
   same closed-flag. Nothing of the body is left to be parsed as a request and nothing of `tail` is
   consumed. Vocabulary: see Props/C03.v. Proofs: Http/C03Facts.v and the files it imports. *)
From TH Require Import Http.BodyFacts Http.ChunkedFacts Http.ChunkedReader Http.C03Facts.

(* Content-Length body through the length-limited reader, all of it pending *)
Theorem c09_limited_drop :
  forall body tail e ns al ps en r' st' al', all_pos ns ->
    reads fixed ns (BLimited (len body)) (mkS (body ++ tail) e) al = (ps, en, r', st', al') ->
    fst (body_drop fixed r' st' al') = mkS tail e.
Proof. exact limited_drop. Qed.
Print Assumptions c09_limited_drop.

(* the connection holds fewer bytes than the body still needs (the client went away, or has not
   sent them yet): everything pending is consumed — none of it can be taken for a request *)
Theorem c09_limited_drop_short :
  forall x e n al, (len x < n)%N -> fst (body_drop fixed (BLimited n) (mkS x e) al) = mkS [] e.
Proof. exact limited_drop_short. Qed.
Print Assumptions c09_limited_drop_short.

(* small Content-Length body: it was taken off the connection before the request was delivered;
   neither reading nor dropping touches the connection *)
Theorem c09_buffered_drop :
  forall body st ns al ps en r' st' al', all_pos ns ->
    reads fixed ns (BBuffered body) st al = (ps, en, r', st', al') ->
    body_drop fixed r' st' al' = (st, al).
Proof.
  intros body st ns al ps en r' st' al' Hpos E.
  destruct (buffered_reads _ _ _ _ _ _ _ _ _ Hpos E) as (-> & -> & rest & _ & -> & _). reflexivity.
Qed.
Print Assumptions c09_buffered_drop.

(* chunked body, any chunking with accepted size lines: the drain-on-drop of repair D4 reads to
   the end of the body and no further; the fuel |pending|+1 of the model suffices *)
Theorem c09_chunked_drop :
  forall chs last tail e, Forall chunk_ok chs -> size_line_ok last 0 ->
  forall ns al ps en r' st' al', all_pos ns ->
    reads fixed ns (BChunked None false) (mkS (enc chs last tail) e) al = (ps, en, r', st', al') ->
    fst (body_drop fixed r' st' al') = mkS tail e.
Proof. exact chunked_drop. Qed.
Print Assumptions c09_chunked_drop.

(* the same for what serve_loop actually runs: all read loops of a handler (Serve.do_reads, each
   "up to m bytes with an n-byte buffer", n > 0, with the fuel do_reads computes), then drop.
   The handler obtained a prefix of the body: exactly the number of bytes it asked for in total,
   or the whole body and end-of-stream if it asked for more. *)
Theorem c09_limited_do_reads :
  forall body tail e rs al acc, bufs_pos rs ->
    exists acc' en got rest r',
      do_reads fixed rs (BLimited (len body)) (mkS (body ++ tail) e) al acc EndCount = (acc', en, r', mkS (rest ++ tail) e, al) /\
      pieces_bytes acc' = pieces_bytes acc ++ got /\ body = got ++ rest /\
      ((en = EndCount /\ len got = sum_m rs) \/ (en = EndEof /\ rest = [] /\ (len body < sum_m rs)%N)) /\
      fst (body_drop fixed r' (mkS (rest ++ tail) e) al) = mkS tail e.
Proof. exact limited_do_reads. Qed.
Print Assumptions c09_limited_do_reads.

Theorem c09_buffered_do_reads :
  forall body st rs al acc, bufs_pos rs ->
    exists acc' en got rest,
      do_reads fixed rs (BBuffered body) st al acc EndCount = (acc', en, BBuffered rest, st, al) /\
      pieces_bytes acc' = pieces_bytes acc ++ got /\ body = got ++ rest /\
      ((en = EndCount /\ len got = sum_m rs) \/ (en = EndEof /\ rest = [] /\ (len body < sum_m rs)%N)).
Proof. exact buffered_do_reads. Qed.
Print Assumptions c09_buffered_do_reads.

Theorem c09_chunked_do_reads :
  forall chs last tail e rs al acc, Forall chunk_ok chs -> size_line_ok last 0 -> bufs_pos rs ->
    exists acc' en got rest r' st',
      do_reads fixed rs (BChunked None false) (mkS (enc chs last tail) e) al acc EndCount = (acc', en, r', st', al) /\
      pieces_bytes acc' = pieces_bytes acc ++ got /\ payload chs = got ++ rest /\
      ((en = EndCount /\ len got = sum_m rs) \/
       (en = EndEof /\ rest = [] /\ (len (payload chs) < sum_m rs)%N /\ st' = mkS tail e /\ stable r' st')) /\
      fst (body_drop fixed r' st' al) = mkS tail e.
Proof. exact chunked_do_reads. Qed.
Print Assumptions c09_chunked_do_reads.

(* ---- non-vacuity: bodies dropped unread, half read, fully read ---- *)
Definition c09_chunks : list chunk :=
  [ (s "5", s "hello"); (s " 000A ", s ", chunked "); (s "+6;name=value", s "world!") ].
Definition c09_tail : bytes := s "GET /b HTTP/1.1" ++ CRLF ++ CRLF.
Definition c09_chunked_wire : bytes := enc c09_chunks (s "0") c09_tail.

Example c09_example_chunked_drop_unread :
  body_drop fixed (BChunked None false) (mkS c09_chunked_wire false) [] = (mkS c09_tail false, []).
Proof. vm_compute. reflexivity. Qed.
Example c09_example_chunked_drop_partial :
  let '(ps, en, r, st, al) := reads fixed [3; 4]%nat (BChunked None false) (mkS c09_chunked_wire false) [] in
  (ps, en, body_drop fixed r st al) = ([s "hel"; s "lo"], None, (mkS c09_tail false, [])).
Proof. vm_compute. reflexivity. Qed.
Example c09_example_chunked_drop_inside_chunk :
  let '(ps, en, r, st, al) := reads fixed [3]%nat (BChunked None false) (mkS c09_chunked_wire false) [] in
  (ps, en, r, body_drop fixed r st al) = ([s "hel"], None, BChunked (Some 2%N) false, (mkS c09_tail false, [])).
Proof. vm_compute. reflexivity. Qed.
(* the tree as found does not drain: the rest of the body is left on the connection (D4) *)
Example c09_example_chunked_asfound :
  body_drop asfound (BChunked None false) (mkS c09_chunked_wire false) [] = (mkS c09_chunked_wire false, []).
Proof. vm_compute. reflexivity. Qed.
Example c09_example_limited_drop_partial :
  let '(ps, en, r, st, al) := reads fixed [2; 1]%nat (BLimited 2000) (mkS (repeat "x"%char 2000 ++ c09_tail) false) [] in
  (List.length (List.concat ps), en, fst (body_drop fixed r st al)) = (3%nat, None, mkS c09_tail false).
Proof. vm_compute. reflexivity. Qed.
Example c09_example_limited_drop_short :
  fst (body_drop fixed (BLimited 2000) (mkS (s "only these") true) []) = mkS [] true.
Proof. vm_compute. reflexivity. Qed.

(* LIMIT of the statements above (and of the crate): `enc` has no trailer section, because the
   decoder of chunked_transfer 1.5.0 expects CRLF directly after the last-chunk line. On a body
   WITH trailer fields (RFC 7230 4.1.2) it consumes one byte, fails, the error latches the reader
   (no drain), and the rest of the trailer section is parsed as the next request — here the
   trailer line "XGET /evil HTTP/1.1" is delivered as a request GET /evil. *)
Definition c09_trailer_witness : bytes :=
  s "POST /a HTTP/1.1" ++ CRLF ++ s "Transfer-Encoding: chunked" ++ CRLF ++ CRLF ++
  s "5" ++ CRLF ++ s "hello" ++ CRLF ++ s "0" ++ CRLF ++ s "XGET /evil HTTP/1.1" ++ CRLF ++ CRLF ++
  s "GET /b HTTP/1.1" ++ CRLF ++ CRLF.
Example c09_example_trailers_unsupported :
  map (fun d => (d_url d, d_read d, d_end d))
      (o_reqs (serve fixed (s "D") [] (mkA [(ALL, 1024%nat)] (FRespond 200 (s "ok") true)) c09_trailer_witness true))
  = [(s "/a", s "hello", EndErr); (s "/evil", [], EndEof); (s "/b", [], EndEof)].
Proof. vm_compute. reflexivity. Qed.
