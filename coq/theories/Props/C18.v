(* Props/C18.v — C18: Expect: 100-continue. Proofs in Http/C18Facts.v. *)
From TH Require Import Base.Bytes Http.Response Http.Request Http.Body Http.Serve
  Http.ServeFacts Http.C12Facts Http.C18Facts.

(* the expectation is recognised iff the first Expect header is, ignoring case, "100-continue";
   any other value is refused with 417 (a malformed Content-Length is refused first, with 400) *)
Theorem c18_expect_recognised : forall c hs, framing c hs <> FrBadContentLength ->
  (forall k bl e, framing c hs = FrOk k bl e ->
     (e = true <-> exists v, first_value (s "Expect") hs v /\ lower v = lower (s "100-continue"))) /\
  (framing c hs = FrExpectationFailed <->
     exists v, first_value (s "Expect") hs v /\ lower v <> lower (s "100-continue")).
Proof. exact expect_recognised. Qed.
Print Assumptions c18_expect_recognised.

(* with the expectation the body is never read before the application asks *)
Theorem c18_not_prebuffered : forall c hs k bl,
  framing c hs = FrOk k bl true -> forall n, k <> KBuffered n.
Proof. exact expect_not_prebuffered. Qed.
Print Assumptions c18_not_prebuffered.

(* the request is built at once, on the untouched rest of the stream; with a Content-Length n > 0
   its reader is the exact-length reader over n bytes (reader exactness: body-side theorems) *)
Theorem c18_reader : forall c hs k bl rest eof al, framing c hs = FrOk k bl true ->
  exists rd, built_of k rest eof al = inl (Some (rd, mkS rest eof, al)) /\
    (k = KUpgrade /\ rd = BUpgrade \/
     (exists n, bl = Some n /\ n <> 0%N /\ k = KLimited n /\ rd = BLimited n) \/
     (bl = Some 0%N /\ k = KEmpty /\ rd = BEmpty) \/
     (bl = None /\ (k = KChunked /\ rd = BChunked None false \/ k = KEmpty /\ rd = BEmpty))).
Proof. exact expect_reader. Qed.
Print Assumptions c18_reader.

Theorem c18_expect_limited : forall hs v n e,
  header_value "Transfer-Encoding" hs = None ->
  header_value "Content-Length" hs = Some v -> v <> [] -> forallb is_digit v = true ->
  parse_dec v = Some n -> n <> 0%N ->
  match header_value "Connection" hs with
  | Some cv => contains_sub (s "upgrade") (lower cv) | None => false end = false ->
  header_value "Expect" hs = Some e -> eq_ci e (s "100-continue") = true ->
  framing fixed hs = FrOk (KLimited n) (Some n) true.
Proof. exact expect_limited. Qed.
Print Assumptions c18_expect_limited.

(* the interim response: a 100 status line and head, no body, always renderable *)
Theorem c18_interim_shape : forall date ver hs,
  render date (empty_response 100) ver hs true None =
  (render_head ver 100 [mkH (s "Server") (s "tiny-http (Rust)"); mkH (s "Date") date;
                        mkH (s "Content-Length") (s "0")], true).
Proof. exact interim_render. Qed.
Print Assumptions c18_interim_shape.

(* one iteration of serve_loop that delivers a request (version <= 1.1): the bytes it appends to
   the wire are  [interim, iff the request expects AND the action asks for the body]  followed by
   [the final answer, unless the handler's reads blocked]. Hence: at most one interim response,
   always before the final one; none if the application does not ask; none without expectation. *)
Theorem c18_one_step_wire :
  forall c date script dflt st wire reqs al ok m url ver hs rest kind bl ex rd st1 al1,
  read_head c (sbytes st) = HeadOk m url ver hs rest ->
  framing c hs = FrOk kind bl ex ->
  built_of kind rest (seof st) al = inl (Some (rd, st1, al1)) ->
  ver_gt_11 ver = false ->
  forall f, exists (blocked : bool) (d : delivered) st' al' ok',
  let act := act_of script dflt in
  let W := wire ++ (if ex && asks_body act then interim date ver hs else [])
                ++ (if blocked then [] else final_bytes date act m ver hs) in
  serve_loop c date (S f) script dflt st wire reqs al ok =
    (if blocked then mkO (frev reqs ++ [d]) W CHang al' ok'
     else if last_request ver hs then mkO (frev reqs ++ [d]) W CClosed al' ok'
     else serve_loop c date f (script_tl script) dflt st' W (d :: reqs) al' ok') /\
  d_method d = m /\ d_url d = url /\ d_headers d = hs /\
  (a_reads act = [] -> (forall p, a_finish act <> FUpgrade p) -> blocked = false).
Proof. exact one_step_wire. Qed.
Print Assumptions c18_one_step_wire.

(* the three cases at the level of the step function (serve_loop_S, step_delivered relate it to
   serve_loop): step_wire = the wire after the iteration *)
Theorem c18_interim_once_before_final :
  forall c date script dflt wire reqs ok m url ver hs bl ex rd st1 al1,
  ver_gt_11 ver = false -> ex = true -> a_reads (act_of script dflt) <> [] ->
  step_wire (deliver_step c date script dflt wire reqs ok m url ver hs bl ex rd st1 al1) =
  wire ++ interim date ver hs
       ++ (match h_end (handle c date (act_of script dflt) m ver hs ex rd st1 al1) with
           | EndBlock => [] | _ => final_bytes date (act_of script dflt) m ver hs end).
Proof. exact expects_and_asks. Qed.
Print Assumptions c18_interim_once_before_final.

Theorem c18_no_interim_if_not_asked :
  forall c date script dflt wire reqs ok m url ver hs bl ex rd st1 al1,
  ver_gt_11 ver = false -> a_reads (act_of script dflt) = [] ->
  step_wire (deliver_step c date script dflt wire reqs ok m url ver hs bl ex rd st1 al1) =
  wire ++ (match h_end (handle c date (act_of script dflt) m ver hs ex rd st1 al1) with
           | EndBlock => [] | _ => final_bytes date (act_of script dflt) m ver hs end).
Proof. exact expects_not_asked. Qed.
Print Assumptions c18_no_interim_if_not_asked.

Theorem c18_no_interim_without_expectation :
  forall c date script dflt wire reqs ok m url ver hs bl ex rd st1 al1,
  ver_gt_11 ver = false -> ex = false ->
  step_wire (deliver_step c date script dflt wire reqs ok m url ver hs bl ex rd st1 al1) =
  wire ++ (match h_end (handle c date (act_of script dflt) m ver hs ex rd st1 al1) with
           | EndBlock => [] | _ => final_bytes date (act_of script dflt) m ver hs end).
Proof. exact no_expectation. Qed.
Print Assumptions c18_no_interim_without_expectation.

(* ---- non-vacuity ---- *)
Definition c18_req : bytes :=
  s "POST /u HTTP/1.1" ++ CRLF ++ s "Host: h" ++ CRLF ++ s "Expect: 100-Continue" ++ CRLF ++
  s "Content-Length: 5" ++ CRLF ++ CRLF.
Definition c18_hs : list header :=
  [mkH (s "Host") (s "h"); mkH (s "Expect") (s "100-Continue"); mkH (s "Content-Length") (s "5")].
Example c18_example_hyps :
  read_head fixed (c18_req ++ s "hello") = HeadOk (s "POST") (s "/u") (1, 1)%N c18_hs (s "hello") /\
  framing fixed c18_hs = FrOk (KLimited 5) (Some 5%N) true /\
  framing fixed [mkH (s "Expect") (s "200-ok")] = FrExpectationFailed.
Proof. vm_compute. repeat split; reflexivity. Qed.
(* the application reads the body: interim, then the body is readable in full, then the answer *)
Example c18_example_asks :
  let a := mkA [(100%N, 16%nat)] (FRespond 200 (s "ok") true) in
  let o := serve fixed (s "D") [] a (c18_req ++ s "hello") true in
  o_wire o = interim (s "D") (1, 1)%N c18_hs ++ final_bytes (s "D") a (s "POST") (1, 1)%N c18_hs /\
  map d_read (o_reqs o) = [s "hello"] /\
  starts_with (s "HTTP/1.1 100 Continue") (o_wire o) = true.
Proof. vm_compute. repeat split; reflexivity. Qed.
(* the application answers without reading: no interim response *)
Example c18_example_not_asked :
  let a := mkA [] (FRespond 403 (s "no") true) in
  let o := serve fixed (s "D") [] a c18_req true in
  o_wire o = final_bytes (s "D") a (s "POST") (1, 1)%N c18_hs /\
  starts_with (s "HTTP/1.1 403") (o_wire o) = true.
Proof. vm_compute. repeat split; reflexivity. Qed.
(* the client waits for the interim response before sending the body: it gets it (the read then
   blocks until the body arrives) *)
Example c18_example_client_waits :
  let a := mkA [(100%N, 16%nat)] (FRespond 200 (s "ok") true) in
  let o := serve fixed (s "D") [] a c18_req false in
  o_wire o = interim (s "D") (1, 1)%N c18_hs /\ o_end o = CHang.
Proof. vm_compute. repeat split; reflexivity. Qed.
