(* Props/C12.v — C12: the request that ends the connection, and keep-alive.
   Proofs in Http/C12Facts.v, Http/C12ServeFacts.v, Http/C12ManyFacts.v. *)
From TH Require Import Base.Bytes Http.Response Http.Request Http.Body Http.Serve
  Http.ServeFacts Http.C12Facts Http.C12ServeFacts Http.C12ManyFacts Http.C12BodyFacts.

(* (a) last_request is the decision of the property text (ref_last, Http/C12Facts.v, section Spec:
       first Connection header, lower-cased, contains "close" or "upgrade"; or the version is 1.0 and
       it is not the case that the header is present and contains "keep-alive") *)
Theorem c12_last_request_table : forall ver hs, last_request ver hs = true <-> ref_last ver hs.
Proof. exact last_request_table. Qed.
Print Assumptions c12_last_request_table.

(* (b) one iteration of serve_loop on a request (version <= 1.1) that is the last one: it is
       delivered, answered, and the server closes; nothing in `rest` is read as a request.
       h = what the handler's action did (Http/ServeFacts.v: handle) *)
Theorem c12_last_closes :
  forall c date script dflt st wire reqs al ok m url ver hs rest kind bl ex rd st1 al1,
  read_head c (sbytes st) = HeadOk m url ver hs rest ->
  framing c hs = FrOk kind bl ex ->
  built_of kind rest (seof st) al = inl (Some (rd, st1, al1)) ->
  ver_gt_11 ver = false ->
  forall f, last_request ver hs = true ->
  let h := handle c date (act_of script dflt) m ver hs ex rd st1 al1 in
  h_end h <> EndBlock ->
  serve_loop c date (S f) script dflt st wire reqs al ok =
  mkO (frev reqs ++ [mkD m url ver hs bl (pieces_bytes (h_got h)) (h_end h)])
      (wire ++ h_w100 h ++ h_wfin h) CClosed (h_al4 h) (ok && h_m100 h && h_mfin h).
Proof. exact last_closes. Qed.
Print Assumptions c12_last_closes.

(* also when the handler's read blocks: exactly one more request, never a second one *)
Theorem c12_last_no_more :
  forall c date script dflt st wire reqs al ok m url ver hs rest kind bl ex rd st1 al1,
  read_head c (sbytes st) = HeadOk m url ver hs rest ->
  framing c hs = FrOk kind bl ex ->
  built_of kind rest (seof st) al = inl (Some (rd, st1, al1)) ->
  ver_gt_11 ver = false ->
  forall f, last_request ver hs = true ->
  let h := handle c date (act_of script dflt) m ver hs ex rd st1 al1 in
  o_reqs (serve_loop c date (S f) script dflt st wire reqs al ok)
    = frev reqs ++ [mkD m url ver hs bl (pieces_bytes (h_got h)) (h_end h)] /\
  o_end (serve_loop c date (S f) script dflt st wire reqs al ok)
    = (match h_end h with EndBlock => CHang | _ => CClosed end).
Proof. exact last_no_more. Qed.
Print Assumptions c12_last_no_more.

(* the bytes after a last request (without body) have no influence at all *)
Theorem c12_nothing_after_last : forall c date req m url ver hs bl ex,
  read_head c req = HeadOk m url ver hs [] -> framing c hs = FrOk KEmpty bl ex ->
  ver_gt_11 ver = false -> last_request ver hs = true ->
  forall script dflt t1 e1 t2 e2,
    let o1 := serve c date script dflt (req ++ t1) e1 in
    let o2 := serve c date script dflt (req ++ t2) e2 in
    o_reqs o1 = o_reqs o2 /\ o_wire o1 = o_wire o2 /\ o_end o1 = CClosed /\ o_end o2 = CClosed /\
    List.length (o_reqs o1) = 1%nat.
Proof. exact nothing_after_last. Qed.
Print Assumptions c12_nothing_after_last.

(* the same for a last request WITH a body that has completely arrived (a small pre-read body, or
   an exact-length body of any size; complete_body: Http/C12BodyFacts.v): whatever the handler
   script does, nothing after the body has any influence, and the server closes *)
Theorem c12_nothing_after_last_body : forall c date head body m url ver hs kind bl ex,
  read_head c head = HeadOk m url ver hs [] -> framing c hs = FrOk kind bl ex ->
  complete_body kind body -> ver_gt_11 ver = false -> last_request ver hs = true ->
  forall script dflt t1 e1 t2 e2,
    let o1 := serve c date script dflt (head ++ body ++ t1) e1 in
    let o2 := serve c date script dflt (head ++ body ++ t2) e2 in
    o_reqs o1 = o_reqs o2 /\ o_wire o1 = o_wire o2 /\ o_modelled o1 = o_modelled o2 /\
    o_end o1 = CClosed /\ o_end o2 = CClosed /\ List.length (o_reqs o1) = 1%nat.
Proof. exact nothing_after_last_body. Qed.
Print Assumptions c12_nothing_after_last_body.

(* in every other case the loop goes on with the rest of the stream *)
Theorem c12_keepalive_continues :
  forall c date script dflt st wire reqs al ok m url ver hs rest kind bl ex rd st1 al1,
  read_head c (sbytes st) = HeadOk m url ver hs rest ->
  framing c hs = FrOk kind bl ex ->
  built_of kind rest (seof st) al = inl (Some (rd, st1, al1)) ->
  ver_gt_11 ver = false ->
  forall f, last_request ver hs = false ->
  let h := handle c date (act_of script dflt) m ver hs ex rd st1 al1 in
  h_end h <> EndBlock ->
  serve_loop c date (S f) script dflt st wire reqs al ok =
  serve_loop c date f (script_tl script) dflt (h_st4 h) (wire ++ h_w100 h ++ h_wfin h)
             (mkD m url ver hs bl (pieces_bytes (h_got h)) (h_end h) :: reqs)
             (h_al4 h) (ok && h_m100 h && h_mfin h).
Proof. exact keepalive_continues. Qed.
Print Assumptions c12_keepalive_continues.

(* (c) any number of complete simple requests (GET <target> HTTP/1.1, Host: h) sent back to back:
       all are delivered and answered in order, whatever the handler script does with each; with
       half-close (eof = true) the server then closes, otherwise the connection stays open *)
Theorem c12_halfclose_still_answered : forall date dflt script ts eof,
  Forall good_target ts ->
  serve fixed date script dflt (pipeline ts) eof =
  mkO (deliveries dflt script ts) (answers date dflt script ts)
      (if eof then CClosed else COpen) [] (all_ok date dflt script ts).
Proof. exact pipeline_all_answered. Qed.
Print Assumptions c12_halfclose_still_answered.

(* ---- non-vacuity ---- *)
Definition c12_close_req : bytes :=
  s "GET /x HTTP/1.1" ++ CRLF ++ s "Host: h" ++ CRLF ++ s "Connection: Close" ++ CRLF ++ CRLF.
Definition c12_close_hs : list header := [mkH (s "Host") (s "h"); mkH (s "Connection") (s "Close")].
Example c12_example_hyps :
  read_head fixed c12_close_req = HeadOk (s "GET") (s "/x") (1, 1)%N c12_close_hs [] /\
  framing fixed c12_close_hs = FrOk KEmpty None false /\
  ver_gt_11 (1, 1)%N = false /\ last_request (1, 1)%N c12_close_hs = true.
Proof. vm_compute. repeat split; reflexivity. Qed.
Example c12_example_ref_last : ref_last (1, 1)%N c12_close_hs.
Proof. apply c12_last_request_table. vm_compute. reflexivity. Qed.
Example c12_example_tail_ignored :
  let a := mkA [] (FRespond 200 (s "ok") true) in
  let o1 := serve fixed (s "D") [] a (c12_close_req ++ s "GET /y HTTP/1.1" ++ CRLF ++ CRLF) false in
  let o2 := serve fixed (s "D") [] a c12_close_req true in
  map d_url (o_reqs o1) = [s "/x"] /\ o_wire o1 = o_wire o2 /\ o_end o1 = CClosed.
Proof. vm_compute. repeat split; reflexivity. Qed.
Example c12_example_10_keepalive :
  last_request (1, 0)%N [] = true /\
  last_request (1, 0)%N [mkH (s "connection") (s "Keep-Alive")] = false /\
  last_request (1, 1)%N [] = false /\
  last_request (1, 1)%N [mkH (s "CONNECTION") (s "keep-alive, Upgrade")] = true.
Proof. vm_compute. repeat split; reflexivity. Qed.
Example c12_example_pipeline :
  Forall good_target [s "/a"; s "/b?q=1"; s "*"] /\
  let o := serve fixed (s "D") [mkA [(10%N, 4%nat)] FDrop] (mkA [] (FRespond 200 (s "ok") true))
             (pipeline [s "/a"; s "/b?q=1"; s "*"]) true in
  map d_url (o_reqs o) = [s "/a"; s "/b?q=1"; s "*"] /\ o_end o = CClosed /\ o_modelled o = true.
Proof. split; [repeat constructor|vm_compute; repeat split; reflexivity]. Qed.

Definition c12_post_head (n : bytes) : bytes :=
  s "POST /p HTTP/1.0" ++ CRLF ++ s "Content-Length: " ++ n ++ CRLF ++ CRLF.
Example c12_example_body_hyps :
  read_head fixed (c12_post_head (s "5"))
    = HeadOk (s "POST") (s "/p") (1, 0)%N [mkH (s "Content-Length") (s "5")] [] /\
  framing fixed [mkH (s "Content-Length") (s "5")] = FrOk (KBuffered 5) (Some 5%N) false /\
  complete_body (KBuffered 5) (s "hello") /\
  framing fixed [mkH (s "Content-Length") (s "1030")] = FrOk (KLimited 1030) (Some 1030%N) false /\
  complete_body (KLimited 1030) (repeat "a"%char 1030) /\
  last_request (1, 0)%N [mkH (s "Content-Length") (s "5")] = true.
Proof. vm_compute. repeat split; reflexivity. Qed.
Example c12_example_body_tail_ignored :
  let a := mkA [(3%N, 2%nat)] (FRespond 200 (s "ok") true) in
  let o := serve fixed (s "D") [] a (c12_post_head (s "5") ++ s "hello" ++ s "GET / HTTP/1.1" ++ CRLF ++ CRLF) false in
  map d_read (o_reqs o) = [s "hel"] /\ o_end o = CClosed /\
  o_wire o = o_wire (serve fixed (s "D") [] a (c12_post_head (s "5") ++ s "hello") true).
Proof. vm_compute. repeat split; reflexivity. Qed.
