(* Props/C11.v — placeholder: examples on the read-ahead model; theorems are added as the proofs land. *)
From TH Require Import Base.Bytes Http.Response Http.Request Http.Body Http.Serve Http.Ahead.
Open Scope char_scope.
Definition c11_get (t : string) : bytes := s "GET " ++ s t ++ s " HTTP/1.1" ++ CRLF ++ CRLF.
Example c11_example_all_available :
  fst (ahead fixed (mkS (c11_get "/a" ++ c11_get "/b" ++ c11_get "/c") true)) = [s "/a"; s "/b"; s "/c"].
Proof. vm_compute. reflexivity. Qed.
