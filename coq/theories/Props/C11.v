(* Props/C11.v — C11: requests are read and delivered without waiting for earlier ones on the same
   connection to be answered: in a pipeline whose requests all have bodies that are absent or at
   most 1024 bytes (none asking for 100-continue), every request becomes available to the
   application while none has been answered. A request with a larger or chunked body delays its
   successors only until that body has been read to its end or the request has been answered or
   dropped.

   Model: Http/Ahead.v. `ahead c st` = (the targets of the requests the connection thread can parse
   and hand over while NONE has been answered, why it stops); `ahead_two c a st` = (those, the ones
   that become obtainable after the application did `a` to the request holding the socket reader).
   Proofs: Http/AheadFacts.v, Http/AheadReleaseFacts.v. Vocabulary (AheadFacts.v):
     cl_value v n       v is an accepted Content-Length value denoting n: v <> [], all digits,
                        parse_dec v = Some n (so n < 2^64); `print_dec n` is one (c11_cl_value_print)
     hdrs r             the headers of the abstract head r (HeadFacts.req_head) as the parser yields them
     absent n hs        no header named n;   expects hs = an Expect header is present;
     expect_ok hs       no Expect header or Expect: 100-continue;   has_te hs = a Transfer-Encoding header
     pelem              a pipeline element: head, the optional blanks of its rendering, body bytes
     small_head r       wf_head r (so version 0.9 / 1.0 / 1.1), no Transfer-Encoding, no Expect, and
                        last_request = false: no Connection header containing close or upgrade, and
                        for HTTP/1.0 one containing keep-alive
     small_body hs b    no Content-Length and b = [], or Content-Length v, cl_value v n, n <= 1024, len b = n
     small_elem e       small_head, wf_ows, small_body
     render_pipe es     the concatenated renderings (head, then body) ;  targets es = their request targets
     limited_head r n   wf_head, no Transfer-Encoding, no upgrade, expect_ok, Content-Length denoting n with
                        1024 < n, or 0 < n together with Expect (: 100-continue)
     chunked_head r     wf_head, a Transfer-Encoding header, no upgrade, expect_ok, Content-Length absent or valid
     upgrade_head r     wf_head, a Connection header containing upgrade, expect_ok, Content-Length absent or valid
     keeps_alive r      last_request (rq_version r) (hdrs r) = false
     final r            last_request (rq_version r) (hdrs r) = true: Connection containing close or upgrade,
                        or HTTP/1.0 without keep-alive — ClientConnection::next parses nothing after r *)
From TH Require Import Base.Bytes Http.Response Http.Request Http.Body Http.Serve Http.Ahead.
From TH Require Import Http.HeadFacts Http.FramingBodyFacts Http.ChunkedFacts Http.ChunkedReader
                       Http.AheadFacts Http.AheadReleaseFacts.
Open Scope char_scope.

(* ---- 1. the threshold: the body is read BEFORE the request is delivered (so that the request
   gives the socket reader back at once) exactly when there is no Transfer-Encoding, the first
   Content-Length is a valid number n with 0 < n <= 1024, there is no Expect header (100-continue
   gives the streamed reader, any other value is refused) and the first Connection header does not
   contain "upgrade" in any case ---- *)
Theorem c11_threshold :
  forall hs n,
    (exists bl ex, framing fixed hs = FrOk (KBuffered n) bl ex) <->
    header_value "Transfer-Encoding" hs = None /\
    (exists v, header_value "Content-Length" hs = Some v /\ cl_value v n) /\
    (0 < n <= 1024)%N /\
    header_value "Expect" hs = None /\
    wants_upgrade hs = false.
Proof. exact threshold. Qed.
Print Assumptions c11_threshold.

Theorem c11_cl_value_print : forall n, (n < USIZE_BOUND)%N -> cl_value (print_dec n) n.
Proof. exact cl_value_print. Qed.
Print Assumptions c11_cl_value_print.

(* ---- 2. a pipeline of ANY number of small requests, followed by bytes that start no complete
   head: every request is obtainable while none has been answered ---- *)
Theorem c11_small_pipeline_all_available :
  forall es tail eof, Forall small_elem es -> read_head fixed tail = HeadEof ->
    ahead fixed (mkS (render_pipe es ++ tail) eof) = (targets es, AEnd).
Proof. exact small_pipeline_all. Qed.
Print Assumptions c11_small_pipeline_all_available.

(* AEnd is the end of the input, not the end of the fuel: every amount of fuel above the number of
   requests gives the same answer, and the amount `ahead` uses, |input| + 1, is above it *)
Theorem c11_small_pipeline_fuel :
  forall es tail eof fuel, Forall small_elem es -> read_head fixed tail = HeadEof ->
    (List.length es < fuel)%nat ->
    ahead_loop fixed fuel (mkS (render_pipe es ++ tail) eof) [] = (targets es, AEnd).
Proof. exact small_pipeline_fuel. Qed.
Print Assumptions c11_small_pipeline_fuel.
Theorem c11_small_pipeline_fuel_ok :
  forall es tail, (List.length es < S (List.length (render_pipe es ++ tail)))%nat.
Proof. exact small_pipeline_fuel_ok. Qed.
Print Assumptions c11_small_pipeline_fuel_ok.

(* ---- 3. after k small requests, a request with a streamed body is delivered (k+1 targets), holds
   the reader, and nothing behind its head is consumed: `rest` — its body and all later requests —
   is still on the connection; the successors are NOT obtainable yet. The flag of AHolds says
   whether the holder ends the connection ---- *)
Theorem c11_large_body_holds :
  forall es r o n rest eof, Forall small_elem es -> limited_head r n -> wf_ows o = true ->
    ahead fixed (mkS (render_pipe es ++ render_req_head r o ++ rest) eof)
    = (targets es ++ [rq_target r], AHolds (BLimited n) (mkS rest eof) (last_request (rq_version r) (hdrs r))).
Proof. exact holds_limited. Qed.
Print Assumptions c11_large_body_holds.

Theorem c11_chunked_body_holds :
  forall es r o rest eof, Forall small_elem es -> chunked_head r -> wf_ows o = true ->
    ahead fixed (mkS (render_pipe es ++ render_req_head r o ++ rest) eof)
    = (targets es ++ [rq_target r], AHolds (BChunked None false) (mkS rest eof) (last_request (rq_version r) (hdrs r))).
Proof. exact holds_chunked. Qed.
Print Assumptions c11_chunked_body_holds.

Theorem c11_upgrade_holds :
  forall es r o rest eof, Forall small_elem es -> upgrade_head r -> wf_ows o = true ->
    ahead fixed (mkS (render_pipe es ++ render_req_head r o ++ rest) eof)
    = (targets es ++ [rq_target r], AHolds BUpgrade (mkS rest eof) true).
Proof. exact holds_upgrade. Qed.
Print Assumptions c11_upgrade_holds.

(* ---- 4. what releases the successors. Content-Length body, all of it on the connection, then
   small requests; the holder keeps the connection alive (used: it gives AHolds _ _ false): ---- *)
Theorem c11_released_by_going_away :
  forall pre post r o body tail eof,
    Forall small_elem pre -> Forall small_elem post -> limited_head r (len body) -> wf_ows o = true ->
    read_head fixed tail = HeadEof -> keeps_alive r ->
    ahead_two fixed RlGoesAway (mkS (render_pipe pre ++ render_req_head r o ++ body ++ render_pipe post ++ tail) eof)
    = (targets pre ++ [rq_target r], targets post).
Proof. exact released_by_going_away_limited. Qed.
Print Assumptions c11_released_by_going_away.

Theorem c11_released_by_reading_to_end :
  forall pre post r o body tail eof,
    Forall small_elem pre -> Forall small_elem post -> limited_head r (len body) -> wf_ows o = true ->
    read_head fixed tail = HeadEof -> keeps_alive r -> (len body < ALL)%N ->
    ahead_two fixed RlReadAll (mkS (render_pipe pre ++ render_req_head r o ++ body ++ render_pipe post ++ tail) eof)
    = (targets pre ++ [rq_target r], targets post).
Proof. exact released_by_reading_to_end_limited. Qed.
Print Assumptions c11_released_by_reading_to_end.

(* reading m <= |body| bytes (even all of them, as long as end-of-stream has not been seen):
   whatever follows the body stays out of reach *)
Theorem c11_not_released_by_partial_read :
  forall pre r o body (rest : bytes) eof m,
    Forall small_elem pre -> limited_head r (len body) -> wf_ows o = true -> (m <= len body)%N ->
    ahead_two fixed (RlReadPart m) (mkS (render_pipe pre ++ render_req_head r o ++ body ++ rest) eof)
    = (targets pre ++ [rq_target r], []).
Proof.
  intros pre r o body rest eof m Hpre Hr Ho Hm.
  rewrite <- (app_nil_l rest). change ([] ++ rest) with (render_pipe [] ++ rest).
  now apply not_released_by_partial_read_limited.
Qed.
Print Assumptions c11_not_released_by_partial_read.

(* the same for a chunked body: any chunking with accepted size lines, no trailers *)
Theorem c11_released_by_going_away_chunked :
  forall pre post r o chs last tail eof,
    Forall small_elem pre -> Forall small_elem post -> chunked_head r -> wf_ows o = true ->
    Forall chunk_ok chs -> size_line_ok last 0 -> read_head fixed tail = HeadEof -> keeps_alive r ->
    ahead_two fixed RlGoesAway (mkS (render_pipe pre ++ render_req_head r o ++ enc chs last (render_pipe post ++ tail)) eof)
    = (targets pre ++ [rq_target r], targets post).
Proof. exact released_by_going_away_chunked. Qed.
Print Assumptions c11_released_by_going_away_chunked.

Theorem c11_released_by_reading_to_end_chunked :
  forall pre post r o chs last tail eof,
    Forall small_elem pre -> Forall small_elem post -> chunked_head r -> wf_ows o = true ->
    Forall chunk_ok chs -> size_line_ok last 0 -> read_head fixed tail = HeadEof -> keeps_alive r ->
    (len (payload chs) < ALL)%N ->
    ahead_two fixed RlReadAll (mkS (render_pipe pre ++ render_req_head r o ++ enc chs last (render_pipe post ++ tail)) eof)
    = (targets pre ++ [rq_target r], targets post).
Proof. exact released_by_reading_to_end_chunked. Qed.
Print Assumptions c11_released_by_reading_to_end_chunked.

Theorem c11_not_released_by_partial_read_chunked :
  forall pre r o chs last (rest : bytes) eof m,
    Forall small_elem pre -> chunked_head r -> wf_ows o = true ->
    Forall chunk_ok chs -> size_line_ok last 0 -> (m <= len (payload chs))%N ->
    ahead_two fixed (RlReadPart m) (mkS (render_pipe pre ++ render_req_head r o ++ enc chs last rest) eof)
    = (targets pre ++ [rq_target r], []).
Proof.
  intros pre r o chs last rest eof m Hpre Hr Ho Hc Hl Hm.
  rewrite <- (app_nil_l rest). change ([] ++ rest) with (render_pipe [] ++ rest).
  now apply not_released_by_partial_read_chunked.
Qed.
Print Assumptions c11_not_released_by_partial_read_chunked.

(* ---- 5. the converse: a holder that ENDS the connection releases nothing — whatever follows its
   head (`rest`: body, further requests, anything) and whatever the application does with it ---- *)
Theorem c11_nothing_after_final_holder :
  forall pre r o n rest eof a, Forall small_elem pre -> limited_head r n -> wf_ows o = true -> final r ->
    ahead_two fixed a (mkS (render_pipe pre ++ render_req_head r o ++ rest) eof) = (targets pre ++ [rq_target r], []).
Proof. exact nothing_after_final_limited. Qed.
Print Assumptions c11_nothing_after_final_holder.

Theorem c11_nothing_after_final_holder_chunked :
  forall pre r o rest eof a, Forall small_elem pre -> chunked_head r -> wf_ows o = true -> final r ->
    ahead_two fixed a (mkS (render_pipe pre ++ render_req_head r o ++ rest) eof) = (targets pre ++ [rq_target r], []).
Proof. exact nothing_after_final_chunked. Qed.
Print Assumptions c11_nothing_after_final_holder_chunked.

(* an upgrade request always ends the connection *)
Theorem c11_nothing_after_upgrade :
  forall pre r o rest eof a, Forall small_elem pre -> upgrade_head r -> wf_ows o = true ->
    ahead_two fixed a (mkS (render_pipe pre ++ render_req_head r o ++ rest) eof) = (targets pre ++ [rq_target r], []).
Proof. exact nothing_after_upgrade. Qed.
Print Assumptions c11_nothing_after_upgrade.

(* the read loops of ahead_two, with the fuel ahead_two gives them (|pending bytes| + 1): "read to the
   end" really obtains the whole body and sees end-of-stream with the connection exactly behind the
   body; "read m bytes" really obtains m bytes (EndCount is the count reached, not the fuel used up) *)
Theorem c11_read_all_obtains_body :
  forall body x e, (len body < ALL)%N ->
    exists acc' r',
      take fixed (S (List.length (body ++ x))) ALL 4096 (BLimited (len body)) (mkS (body ++ x) e) [] []
      = (acc', EndEof, r', mkS x e, []) /\ r' <> BUpgrade /\ pieces_bytes acc' = body.
Proof. exact read_all_limited. Qed.
Print Assumptions c11_read_all_obtains_body.
Theorem c11_read_part_obtains_count :
  forall body x e m, (m <= len body)%N ->
    exists acc' r' st',
      take fixed (S (List.length (body ++ x))) m 7 (BLimited (len body)) (mkS (body ++ x) e) [] []
      = (acc', EndCount, r', st', []) /\ len (pieces_bytes acc') = m.
Proof. exact read_part_limited. Qed.
Print Assumptions c11_read_part_obtains_count.
Theorem c11_read_all_obtains_body_chunked :
  forall chs last x e, Forall chunk_ok chs -> size_line_ok last 0 -> (len (payload chs) < ALL)%N ->
    exists acc' r',
      take fixed (S (List.length (enc chs last x))) ALL 4096 (BChunked None false) (mkS (enc chs last x) e) [] []
      = (acc', EndEof, r', mkS x e, []) /\ r' <> BUpgrade /\ pieces_bytes acc' = payload chs.
Proof. exact read_all_chunked. Qed.
Print Assumptions c11_read_all_obtains_body_chunked.
Theorem c11_read_part_obtains_count_chunked :
  forall chs last x e, Forall chunk_ok chs -> size_line_ok last 0 ->
  forall m, (m <= len (payload chs))%N ->
    exists acc' r' st',
      take fixed (S (List.length (enc chs last x))) m 7 (BChunked None false) (mkS (enc chs last x) e) [] []
      = (acc', EndCount, r', st', []) /\ len (pieces_bytes acc') = m.
Proof. exact read_part_chunked. Qed.
Print Assumptions c11_read_part_obtains_count_chunked.

(* ================= non-vacuity ================= *)
Ltac vc := vm_compute; reflexivity.
Definition xs (n : nat) : bytes := repeat "x" n.
Definition c11_get (t : string) : pelem := mkPE (mkRq (s "GET") (s t) (1, 1)%N []) [] [].
Definition c11_post (t : string) (cl : string) (body : bytes) : pelem :=
  mkPE (mkRq (s "POST") (s t) (1, 1)%N [(s "Content-Length", s cl)]) [] body.

(* [GET /a; POST /b with a 1024-byte body; GET /c]: all three *)
Definition c11_pipe1 : list pelem := [c11_get "/a"; c11_post "/b" "1024" (xs 1024); c11_get "/c"].
Example c11_example_pipe1_wire :
  render_pipe c11_pipe1 =
  s "GET /a HTTP/1.1" ++ CRLF ++ CRLF ++
  s "POST /b HTTP/1.1" ++ CRLF ++ s "Content-Length:1024" ++ CRLF ++ CRLF ++ xs 1024 ++
  s "GET /c HTTP/1.1" ++ CRLF ++ CRLF.
Proof. vm_compute. reflexivity. Qed.
Example c11_example_pipe1_small : Forall small_elem c11_pipe1.
Proof.
  constructor; [split; [vc|split; vc]|]. constructor; [|constructor; [split; [vc|split; vc]|constructor]].
  split; [vc|split; [vc|]]. vm_compute. exists 1024%N. repeat split; try reflexivity; discriminate.
Qed.
Example c11_example_pipe1 :
  ahead fixed (mkS (render_pipe c11_pipe1) true) = ([s "/a"; s "/b"; s "/c"], AEnd).
Proof. vm_compute. reflexivity. Qed.
(* ... also when the client keeps the connection open and has begun the next head *)
Example c11_example_pipe1_open :
  ahead fixed (mkS (render_pipe c11_pipe1 ++ s "GET /d HT") false) = ([s "/a"; s "/b"; s "/c"], AEnd).
Proof. vm_compute. reflexivity. Qed.
(* the 1024-byte body not complete yet: /b is not delivered (new_request waits for the bytes) *)
Example c11_example_pipe1_short_body :
  ahead fixed (mkS (s "GET /a HTTP/1.1" ++ CRLF ++ CRLF ++
                    s "POST /b HTTP/1.1" ++ CRLF ++ s "Content-Length:1024" ++ CRLF ++ CRLF ++ xs 1000) false)
  = ([s "/a"], AEnd).
Proof. vm_compute. reflexivity. Qed.

(* [POST /a with 1025 bytes; GET /b]: only /a; /b after /a went away or was read to its end, not
   after 5 (or all 1025) bytes were read without seeing end-of-stream *)
Definition c11_big : req_head := mkRq (s "POST") (s "/a") (1, 1)%N [(s "Content-Length", s "1025")].
Definition c11_wire2 : bytes := render_req_head c11_big [] ++ xs 1025 ++ render_pipe [c11_get "/b"].
Example c11_example_big_hyps : limited_head c11_big (len (xs 1025)) /\ keeps_alive c11_big.
Proof.
  split; [|vc]. split; [vc|]. split; [vc|]. split; [vc|]. split; [vc|].
  exists (s "1025"). split; [vc|]. split; [split; [vm_compute; discriminate|split; vc]|].
  left. vc.
Qed.
Example c11_example_big_holds :
  ahead fixed (mkS c11_wire2 true)
  = ([s "/a"], AHolds (BLimited 1025) (mkS (xs 1025 ++ s "GET /b HTTP/1.1" ++ CRLF ++ CRLF) true) false).
Proof. vm_compute. reflexivity. Qed.
Example c11_example_big_goes_away : ahead_two fixed RlGoesAway (mkS c11_wire2 true) = ([s "/a"], [s "/b"]).
Proof. vm_compute. reflexivity. Qed.
Example c11_example_big_read_all : ahead_two fixed RlReadAll (mkS c11_wire2 true) = ([s "/a"], [s "/b"]).
Proof. vm_compute. reflexivity. Qed.
Example c11_example_big_read_part : ahead_two fixed (RlReadPart 5) (mkS c11_wire2 true) = ([s "/a"], []).
Proof. vm_compute. reflexivity. Qed.
Example c11_example_big_read_exactly : ahead_two fixed (RlReadPart 1025) (mkS c11_wire2 true) = ([s "/a"], []).
Proof. vm_compute. reflexivity. Qed.
Example c11_example_big_read_beyond : ahead_two fixed (RlReadPart 1026) (mkS c11_wire2 true) = ([s "/a"], [s "/b"]).
Proof. vm_compute. reflexivity. Qed.

(* Expect: 100-continue turns even a 10-byte body into a streamed one *)
Definition c11_expect : req_head :=
  mkRq (s "POST") (s "/e") (1, 1)%N [(s "Content-Length", s "10"); (s "Expect", s "100-Continue")].
Example c11_example_expect_hyps : limited_head c11_expect 10 /\ keeps_alive c11_expect.
Proof.
  split; [|vc]. split; [vc|]. split; [vc|]. split; [vc|]. split; [vc|].
  exists (s "10"). split; [vc|]. split; [split; [vm_compute; discriminate|split; vc]|].
  right. split; vc.
Qed.
Example c11_example_expect :
  ahead_two fixed RlGoesAway
    (mkS (render_pipe [c11_get "/a"] ++ render_req_head c11_expect [] ++ xs 10 ++ render_pipe [c11_get "/b"]) true)
  = ([s "/a"; s "/e"], [s "/b"]).
Proof. vm_compute. reflexivity. Qed.

(* a chunked body in the middle of a pipeline *)
Definition c11_chunked : req_head :=
  mkRq (s "POST") (s "/u") (1, 1)%N [(s "Transfer-Encoding", s "chunked")].
Definition c11_chunks : list chunk := [ (s "5", s "hello"); (s "+6;name=value", s "world!") ].
Definition c11_wire3 : bytes :=
  render_pipe [c11_get "/a"] ++ render_req_head c11_chunked [] ++
  enc c11_chunks (s "0") (render_pipe [c11_post "/b" "3" (s "abc"); c11_get "/c"]).
Example c11_example_chunked_wire :
  c11_wire3 =
  s "GET /a HTTP/1.1" ++ CRLF ++ CRLF ++
  s "POST /u HTTP/1.1" ++ CRLF ++ s "Transfer-Encoding:chunked" ++ CRLF ++ CRLF ++
  s "5" ++ CRLF ++ s "hello" ++ CRLF ++ s "+6;name=value" ++ CRLF ++ s "world!" ++ CRLF ++ s "0" ++ CRLF ++ CRLF ++
  s "POST /b HTTP/1.1" ++ CRLF ++ s "Content-Length:3" ++ CRLF ++ CRLF ++ s "abc" ++
  s "GET /c HTTP/1.1" ++ CRLF ++ CRLF.
Proof. vm_compute. reflexivity. Qed.
Example c11_example_chunked_hyps :
  chunked_head c11_chunked /\ keeps_alive c11_chunked /\ Forall chunk_ok c11_chunks /\ size_line_ok (s "0") 0.
Proof.
  split; [split; [vc|]; split; [vc|]; split; [vc|]; split; [vc|]; vm_compute; exact I|]. split; [vc|].
  split; [repeat constructor; try discriminate|].
  - exists [], [], (s "5"), [], []. vm_compute. repeat split; auto; discriminate.
  - exists [], ["+"], (s "6"), [], (s ";name=value"). vm_compute. repeat split; auto; try discriminate.
    right. eexists. split; reflexivity.
  - exists [], [], (s "0"), [], []. vm_compute. repeat split; auto; discriminate.
Qed.
Example c11_example_chunked_holds : fst (ahead fixed (mkS c11_wire3 true)) = [s "/a"; s "/u"].
Proof. vm_compute. reflexivity. Qed.
Example c11_example_chunked_goes_away :
  ahead_two fixed RlGoesAway (mkS c11_wire3 true) = ([s "/a"; s "/u"], [s "/b"; s "/c"]).
Proof. vm_compute. reflexivity. Qed.
Example c11_example_chunked_read_all :
  ahead_two fixed RlReadAll (mkS c11_wire3 true) = ([s "/a"; s "/u"], [s "/b"; s "/c"]).
Proof. vm_compute. reflexivity. Qed.
Example c11_example_chunked_read_part :
  ahead_two fixed (RlReadPart 11) (mkS c11_wire3 true) = ([s "/a"; s "/u"], []).
Proof. vm_compute. reflexivity. Qed.

(* the tree as found does not drain an unread chunked body (D4): after the request went away the
   rest of the body is taken for the next head and refused — /b and /c are lost *)
Example c11_example_chunked_asfound :
  ahead_two asfound RlGoesAway (mkS c11_wire3 true) = ([s "/a"; s "/u"], []).
Proof. vm_compute. reflexivity. Qed.

(* ================= the corners of the read-ahead (Http/Ahead.v against src/client.rs) =================
   (A) an HTTP/2.0 head behind an unanswered request: the connection thread answers 505 through the
       rejected request's OWN SequentialWriter (client.rs:232-245), whose write() first waits until the
       previous writer has been dropped (sequential.rs, `trigger.recv()`), i.e. until the previous
       request has been ANSWERED: nothing behind it is obtainable while none has been answered *)
Example c11_example_505_after_unanswered :
  ahead fixed (mkS (s "GET /a HTTP/1.1" ++ CRLF ++ CRLF ++ s "GET /b HTTP/2.0" ++ CRLF ++ CRLF ++
                    s "GET /c HTTP/1.1" ++ CRLF ++ CRLF) true)
  = ([s "/a"], AWaitsTurn).
Proof. vm_compute. reflexivity. Qed.
(* ... at the head of the connection there is nothing to wait for: 505, the request is dropped, on *)
Example c11_example_505_first :
  ahead fixed (mkS (s "GET /b HTTP/2.0" ++ CRLF ++ CRLF ++ s "GET /c HTTP/1.1" ++ CRLF ++ CRLF) true)
  = ([s "/c"], AEnd).
Proof. vm_compute. reflexivity. Qed.
(* (B) a holder that ends the connection (Connection: close): /b is never delivered, whatever is
       done with /a; the sequential model Serve.serve agrees *)
Definition c11_close : req_head :=
  mkRq (s "POST") (s "/a") (1, 1)%N [(s "Connection", s "close"); (s "Content-Length", s "1025")].
Definition c11_close_wire : bytes := render_req_head c11_close [] ++ xs 1025 ++ render_pipe [c11_get "/b"].
Example c11_example_close_hyps : limited_head c11_close 1025 /\ final c11_close.
Proof.
  split; [|vc]. split; [vc|]. split; [vc|]. split; [vc|]. split; [vc|].
  exists (s "1025"). split; [vc|]. split; [split; [vm_compute; discriminate|split; vc]|].
  left. vc.
Qed.
Example c11_example_close_final :
  ahead fixed (mkS c11_close_wire true)
  = ([s "/a"], AHolds (BLimited 1025) (mkS (xs 1025 ++ s "GET /b HTTP/1.1" ++ CRLF ++ CRLF) true) true) /\
  ahead_two fixed RlGoesAway (mkS c11_close_wire true) = ([s "/a"], []) /\
  ahead_two fixed RlReadAll (mkS c11_close_wire true) = ([s "/a"], []) /\
  ahead_two fixed (RlReadPart 2000) (mkS c11_close_wire true) = ([s "/a"], []) /\
  map d_url (o_reqs (serve fixed (s "D") [] (mkA [] (FRespond 200 (s "ok") true)) c11_close_wire true)) = [s "/a"].
Proof. repeat split; vm_compute; reflexivity. Qed.
Definition c11_upgrade : req_head := mkRq (s "GET") (s "/a") (1, 1)%N [(s "Connection", s "Upgrade")].
Example c11_example_upgrade_hyps : upgrade_head c11_upgrade.
Proof. split; [vc|]. split; [vc|]. split; [vc|]. vm_compute. exact I. Qed.
Example c11_example_upgrade_final :
  ahead_two fixed RlGoesAway (mkS (render_req_head c11_upgrade [] ++ render_pipe [c11_get "/b"]) true) = ([s "/a"], []).
Proof. vm_compute. reflexivity. Qed.
(* (C) 505 for a request with Connection: upgrade at the head of the connection: rq.into_writer()
       drops the request and with it the raw reader, `continue` parses the next head
       (no_more_requests is only set behind the version check); Serve.serve agrees *)
Definition c11_505_upgrade_wire : bytes :=
  s "GET /a HTTP/2.0" ++ CRLF ++ s "Connection: upgrade" ++ CRLF ++ CRLF ++ s "GET /b HTTP/1.1" ++ CRLF ++ CRLF.
Example c11_example_505_upgrade :
  ahead fixed (mkS c11_505_upgrade_wire true) = ([s "/b"], AEnd) /\
  map d_url (o_reqs (serve fixed (s "D") [] (mkA [] (FRespond 200 (s "ok") true)) c11_505_upgrade_wire true)) = [s "/b"].
Proof. split; vm_compute; reflexivity. Qed.
