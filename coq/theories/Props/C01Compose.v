(* Props/C01Compose.v — C01, the two models composed: "For every connection, responses are written to the client in
   exactly the order in which that connection's requests were received, and the bytes of one response are never
   interleaved with those of another. This holds whichever threads answer the requests, in whatever order and at
   whatever moments they respond, write through the raw writer, or drop the request."

   Statements only; proofs in Conc/ComposeFacts.v (on top of Conc/SeqWriter.v, Conc/SeqWriterFacts.v, Http/WireFacts.v).

   The sequential model `serve` (Http/Serve.v) gives the bytes of a connection for an application that answers each
   request before the next one is read: `o_wire o = segs_bytes date segs` (Props/C06.v, c06_wire_decomposition), one
   segment per writer taken from the chain by the connection thread (src/client.rs: `self.sink.next()` once per
   parsed request — its handler's response, raw-writer bytes or automatic 500, or the 505 the connection thread
   itself writes through the rejected request's writer — and once per 400/417 refusal).
   The writer chain (Conc/SeqWriter.v, `byte := ascii`, `true` = the repaired tree) is executed by ANY label
   sequence `ls`: New (the connection thread takes the next writer), Write i d / Flush i / DropW i (whichever thread
   holds writer i), in any order; a sequence is executable (`run … = Some cs`) iff no operation in it was blocked.
   Hypotheses on `ls`, used throughout:
     (a) run ascii true (init ascii) ls = Some cs            the interleaving is executable;
     (b) length (filter (is_new ascii) ls) = length segs      one writer per segment;
     (c) forall i < length segs, writes_of ascii i ls = seg_bytes date (nth i segs S505)
                                                             writer i wrote exactly segment i, cut into arbitrary
                                                             pieces, at arbitrary moments. *)
From Coq Require Import List Arith Bool Lia Ascii.
Import ListNotations.
From TH Require Import Base.Bytes Http.Response Http.Request Http.Body Http.Serve Http.ServeRefuseFacts Http.C12ManyFacts Http.WireFacts.
From TH Require Import Conc.SeqWriter Conc.SeqWriterFacts Conc.ComposeFacts Conc.ComposeThreads.
From TH Require Props.C06.

(* ---- 1. whatever the interleaving, the connection's byte stream is the wire of the sequential model ---- *)
Theorem c01_any_interleaving_same_wire :
  forall date script dflt input eof,
    let o := serve fixed date script dflt input eof in
    forall (segs : list seg) (ls : list (label ascii)) (cs : st ascii),
      o_wire o = segs_bytes date segs ->
      run ascii true (init ascii) ls = Some cs ->
      List.length (filter (is_new ascii) ls) = List.length segs ->
      (forall i, (i < List.length segs)%nat -> writes_of ascii i ls = seg_bytes date (nth i segs S505)) ->
      stream ascii cs = o_wire o.
Proof. exact any_interleaving_same_wire. Qed.
Print Assumptions c01_any_interleaving_same_wire.

(* existential form: the segments are those of c06_wire_decomposition (the delivered requests with their actions) *)
Theorem c01_any_interleaving_same_wire_ex :
  forall date script dflt input eof,
    let o := serve fixed date script dflt input eof in
    exists segs : list seg,
      o_wire o = segs_bytes date segs /\
      map snd (seg_reqs segs) = o_reqs o /\
      map fst (seg_reqs segs) = used_actions script dflt (List.length (o_reqs o)) /\
      forall (ls : list (label ascii)) (cs : st ascii),
        run ascii true (init ascii) ls = Some cs ->
        List.length (filter (is_new ascii) ls) = List.length segs ->
        (forall i, (i < List.length segs)%nat -> writes_of ascii i ls = seg_bytes date (nth i segs S505)) ->
        stream ascii cs = o_wire o.
Proof. exact any_interleaving_same_wire_ex. Qed.
Print Assumptions c01_any_interleaving_same_wire_ex.

(* the same for ANY attribution of the wire to writers: a list of blocks whose concatenation is the wire. This
   covers writers that write nothing: request::new_request consumes the writer taken at client.rs:140 and drops it
   unwritten when it fails (ExpectationFailed / InvalidContentLength); the 417/400 then goes through one more writer *)
Theorem c01_any_interleaving_blocks :
  forall date script dflt input eof,
    let o := serve fixed date script dflt input eof in
    forall (blocks : list Bytes.bytes) (ls : list (label ascii)) (cs : st ascii),
      o_wire o = List.concat blocks ->
      run ascii true (init ascii) ls = Some cs ->
      List.length (filter (is_new ascii) ls) = List.length blocks ->
      (forall i, (i < List.length blocks)%nat -> writes_of ascii i ls = nth i blocks []) ->
      stream ascii cs = o_wire o.
Proof. exact any_interleaving_blocks_wire. Qed.
Print Assumptions c01_any_interleaving_blocks.

(* generic in the byte type, no reference to serve *)
Theorem c01_stream_is_blocks :
  forall (byte : Type) (blocks : list (list byte)) (ls : list (label byte)) (cs : st byte),
    run byte true (init byte) ls = Some cs ->
    List.length (filter (is_new byte) ls) = List.length blocks ->
    (forall i, (i < List.length blocks)%nat -> writes_of byte i ls = nth i blocks []) ->
    stream byte cs = List.concat blocks.
Proof. exact any_interleaving_blocks. Qed.
Print Assumptions c01_stream_is_blocks.

(* ---- 2. the hypotheses are satisfiable for EVERY outcome of serve; no schedule paints itself into a corner ---- *)
(* all heads parsed, then the segments answered in arrival order, each cut into arbitrary pieces (`opss`: per writer
   a list of OWrite d / OFlush whose data concatenates to the segment): executable, meets (a)(b)(c), gives the wire *)
Theorem c01_complete_run_gives_wire :
  forall date script dflt input eof,
    let o := serve fixed date script dflt input eof in
    forall (segs : list seg) (opss : list (list (op ascii))),
      o_wire o = segs_bytes date segs ->
      map (data ascii) opss = map (seg_bytes date) segs ->
      let ls := repeat (New ascii) (List.length segs) ++ arrival ascii 0 opss in
      exists cs, run ascii true (init ascii) ls = Some cs /\
        List.length (filter (is_new ascii) ls) = List.length segs /\
        (forall i, (i < List.length segs)%nat -> writes_of ascii i ls = seg_bytes date (nth i segs S505)) /\
        stream ascii cs = o_wire o /\ least_undropped ascii (ws ascii cs) = None.
Proof. exact complete_run_gives_wire. Qed.
Print Assumptions c01_complete_run_gives_wire.

Theorem c01_complete_run_exists :
  forall date script dflt input eof,
    let o := serve fixed date script dflt input eof in
    exists (segs : list seg) (ls : list (label ascii)) (cs : st ascii),
      o_wire o = segs_bytes date segs /\ map snd (seg_reqs segs) = o_reqs o /\
      run ascii true (init ascii) ls = Some cs /\
      List.length (filter (is_new ascii) ls) = List.length segs /\
      (forall i, (i < List.length segs)%nat -> writes_of ascii i ls = seg_bytes date (nth i segs S505)) /\
      stream ascii cs = o_wire o.
Proof. exact complete_run_exists. Qed.
Print Assumptions c01_complete_run_exists.

(* `consistent blocks cs`: every writer of state cs has so far written a prefix of its block, a dropped writer all
   of it (the threads are in the middle of writing their answers) *)
Theorem c01_consistent_spec :
  forall (byte : Type) (blocks : list (list byte)) (cs : st byte),
    consistent byte blocks cs <->
    forall i w, nth_error (ws byte cs) i = Some w ->
      (exists rest, nth i blocks [] = sent byte w ++ rest) /\ (dropped byte w = true -> sent byte w = nth i blocks []).
Proof. intros; reflexivity. Qed.
Print Assumptions c01_consistent_spec.

(* every answer order is schedulable: from ANY intermediate state reached by ANY interleaving ls0 — whichever
   threads went first, whatever was refused in between, some requests possibly not parsed yet — the execution can
   be completed (ls1: parse the remaining heads, then let the least undropped writer finish, and so on), every
   writer ends dropped, the completed run meets (b)(c) and the stream is the wire *)
Theorem c01_every_answer_order_is_schedulable :
  forall date script dflt input eof,
    let o := serve fixed date script dflt input eof in
    forall (segs : list seg) (ls0 : list (label ascii)) (cs : st ascii),
      o_wire o = segs_bytes date segs ->
      run ascii true (init ascii) ls0 = Some cs ->
      (List.length (ws ascii cs) <= List.length segs)%nat ->
      consistent ascii (map (seg_bytes date) segs) cs ->
      exists ls1 cs', run ascii true cs ls1 = Some cs' /\ stream ascii cs' = o_wire o /\
        least_undropped ascii (ws ascii cs') = None /\
        List.length (filter (is_new ascii) (ls0 ++ ls1)) = List.length segs /\
        (forall i, (i < List.length segs)%nat -> writes_of ascii i (ls0 ++ ls1) = seg_bytes date (nth i segs S505)).
Proof. exact partial_run_completes_wire. Qed.
Print Assumptions c01_every_answer_order_is_schedulable.

(* blocked attempts: `exec` runs a list of ATTEMPTED operations, a refused one leaves the state unchanged (its
   thread waits and tries again later); the operations that went through form an executable sequence *)
Theorem c01_attempts_are_a_run :
  forall (byte : Type) (att : list (label byte)) (cs cs' : st byte) (done : list (label byte)),
    exec byte cs att = (cs', done) -> run byte true cs done = Some cs'.
Proof. intros byte att. exact (exec_run byte att). Qed.
Print Assumptions c01_attempts_are_a_run.

(* ---- 3. at EVERY moment of such a run (every prefix ls1 of ls1 ++ ls2) the client has received all bytes of the
   first k responses, then a prefix p of response k, and nothing else; writers before k are dropped, writer k and all
   later ones are not, the later ones have written nothing. No hypothesis on the run besides (a)(b)(c) ---- *)
Theorem c01_prefix_in_order :
  forall date script dflt input eof,
    let o := serve fixed date script dflt input eof in
    forall (segs : list seg) (ls1 ls2 : list (label ascii)) (cs1 cs : st ascii),
      o_wire o = segs_bytes date segs ->
      run ascii true (init ascii) ls1 = Some cs1 -> run ascii true cs1 ls2 = Some cs ->
      List.length (filter (is_new ascii) (ls1 ++ ls2)) = List.length segs ->
      (forall i, (i < List.length segs)%nat -> writes_of ascii i (ls1 ++ ls2) = seg_bytes date (nth i segs S505)) ->
      exists k p q,
        stream ascii cs1 = segs_bytes date (firstn k segs) ++ p /\
        nth k (map (seg_bytes date) segs) [] = p ++ q /\ (k <= List.length segs)%nat /\
        (forall j wj, nth_error (ws ascii cs1) j = Some wj -> dropped ascii wj = (j <? k)%nat) /\
        (forall j wj, (k < j)%nat -> nth_error (ws ascii cs1) j = Some wj -> sent ascii wj = []) /\
        exists rest, o_wire o = stream ascii cs1 ++ rest.
Proof. exact prefix_in_order_wire. Qed.
Print Assumptions c01_prefix_in_order.

Theorem c01_prefix_in_order_blocks :
  forall (byte : Type) (blocks : list (list byte)) (ls1 ls2 : list (label byte)) (cs1 cs : st byte),
    run byte true (init byte) ls1 = Some cs1 -> run byte true cs1 ls2 = Some cs ->
    List.length (filter (is_new byte) (ls1 ++ ls2)) = List.length blocks ->
    (forall i, (i < List.length blocks)%nat -> writes_of byte i (ls1 ++ ls2) = nth i blocks []) ->
    exists k p q,
      stream byte cs1 = List.concat (firstn k blocks) ++ p /\ nth k blocks [] = p ++ q /\ (k <= List.length blocks)%nat /\
      (forall j wj, nth_error (ws byte cs1) j = Some wj -> dropped byte wj = (j <? k)%nat) /\
      (forall j wj, (k < j)%nat -> nth_error (ws byte cs1) j = Some wj -> sent byte wj = []).
Proof. exact prefix_in_order. Qed.
Print Assumptions c01_prefix_in_order_blocks.

(* ---- 3'. the threads as programs: ALL their interleavings ----
   Vocabulary (Conc/ComposeThreads.v): `merge a b c` — c is a shuffle of a and b keeping the order inside each;
   `interleaving ps ls` — ls is a shuffle of all the lists ps; `progs byte 0 opss` = [answer 0 ops_0; answer 1 ops_1; …],
   `answer i ops` = the writes and flushes `ops` on writer i in order, then DropW i (the program of the thread that
   holds writer i: Response::raw_print pieces and the flush of respond, the raw writer's writes, Drop's 500, the
   connection thread's own 505 / 400 / 417). The connection thread contributes `repeat New n`. *)
Theorem c01_merge_spec :
  forall (A : Type) (a b c : list A), merge a b c <->
    (a = [] /\ b = [] /\ c = []) \/
    (exists x a' c', a = x :: a' /\ c = x :: c' /\ merge a' b c') \/
    (exists x b' c', b = x :: b' /\ c = x :: c' /\ merge a b' c').
Proof.
  intros A a b c. split.
  - intros H. inversion H; subst; [left; auto|right; left; eauto 7|right; right; eauto 7].
  - intros [(-> & -> & ->)|[(x & a' & c' & -> & -> & H)|(x & b' & c' & -> & -> & H)]]; constructor; auto.
Qed.
Print Assumptions c01_merge_spec.

Theorem c01_interleaving_spec :
  forall (A : Type) (p : list A) (ps : list (list A)) (ls : list A),
    (interleaving [] ls <-> ls = []) /\ (interleaving (p :: ps) ls <-> exists lr, interleaving ps lr /\ merge p lr ls).
Proof. intros; split; reflexivity. Qed.
Print Assumptions c01_interleaving_spec.

(* every executable interleaving of the connection thread with the answering threads gives the wire *)
Theorem c01_any_thread_interleaving_same_wire :
  forall date script dflt input eof,
    let o := serve fixed date script dflt input eof in
    forall (segs : list seg) (opss : list (list (op ascii))) (ls : list (label ascii)) (cs : st ascii),
      o_wire o = segs_bytes date segs ->
      map (data ascii) opss = map (seg_bytes date) segs ->
      interleaving (repeat (New ascii) (List.length segs) :: progs ascii 0 opss) ls ->
      run ascii true (init ascii) ls = Some cs ->
      stream ascii cs = o_wire o.
Proof. exact any_thread_interleaving_wire. Qed.
Print Assumptions c01_any_thread_interleaving_same_wire.

Theorem c01_any_thread_interleaving_blocks :
  forall (byte : Type) (opss : list (list (op byte))) (ls : list (label byte)) (cs : st byte),
    interleaving (repeat (New byte) (List.length opss) :: progs byte 0 opss) ls ->
    run byte true (init byte) ls = Some cs ->
    stream byte cs = List.concat (map (data byte) opss).
Proof. exact any_thread_interleaving. Qed.
Print Assumptions c01_any_thread_interleaving_blocks.

(* at every moment of such an execution: complete responses 0..k-1, then a prefix of response k, nothing else *)
Theorem c01_any_thread_interleaving_prefix :
  forall date script dflt input eof,
    let o := serve fixed date script dflt input eof in
    forall (segs : list seg) (opss : list (list (op ascii))) (ls1 ls2 : list (label ascii)) (cs1 cs : st ascii),
      o_wire o = segs_bytes date segs ->
      map (data ascii) opss = map (seg_bytes date) segs ->
      interleaving (repeat (New ascii) (List.length segs) :: progs ascii 0 opss) (ls1 ++ ls2) ->
      run ascii true (init ascii) ls1 = Some cs1 -> run ascii true cs1 ls2 = Some cs ->
      exists k p q,
        stream ascii cs1 = segs_bytes date (firstn k segs) ++ p /\
        nth k (map (seg_bytes date) segs) [] = p ++ q /\ (k <= List.length segs)%nat /\
        exists rest, o_wire o = stream ascii cs1 ++ rest.
Proof. exact any_thread_interleaving_prefix. Qed.
Print Assumptions c01_any_thread_interleaving_prefix.

(* executable interleavings exist for every outcome of serve *)
Theorem c01_thread_interleaving_exists :
  forall date script dflt input eof,
    let o := serve fixed date script dflt input eof in
    forall segs : list seg, o_wire o = segs_bytes date segs ->
      exists (opss : list (list (op ascii))) (ls : list (label ascii)) (cs : st ascii),
        map (data ascii) opss = map (seg_bytes date) segs /\
        interleaving (repeat (New ascii) (List.length segs) :: progs ascii 0 opss) ls /\
        run ascii true (init ascii) ls = Some cs.
Proof. exact thread_interleaving_exists. Qed.
Print Assumptions c01_thread_interleaving_exists.

(* ---- 4. non-vacuity ---- *)
(* the pipeline of Props/C06.v: /a answered 200 "hello", /b dropped (500), /c answered 404 chunked *)
Definition ex_o : outcome := serve fixed (s "D") C06.c06_script C06.c06_dflt (pipeline C06.c06_ts) true.
Definition ex_segs : list seg :=
  map (fun p => SReq (fst p) (snd p)) (combine (used_actions C06.c06_script C06.c06_dflt 3) (o_reqs ex_o)).
Definition ex_b (i : nat) : Bytes.bytes := seg_bytes (s "D") (nth i ex_segs S505).

Example c01c_example_segs :
  List.length ex_segs = 3%nat /\ o_wire ex_o = segs_bytes (s "D") ex_segs /\
  map snd (seg_reqs ex_segs) = o_reqs ex_o /\
  ex_b 1 = s "HTTP/1.1 500 Internal Server Error" ++ CRLF ++ s "Server: tiny-http (Rust)" ++ CRLF ++
           s "Date: D" ++ CRLF ++ s "Content-Length: 0" ++ CRLF ++ CRLF.
Proof. vm_compute. repeat split. Qed.

(* what the threads ATTEMPT, in this order. The connection thread parses the three heads; the handler of /c is
   fastest and tries to write its 404 (refused: it waits); the handler of /a writes its head bytes; the thread that
   drops /b tries to write the 500 (refused); /a's handler writes the rest; /c's handler tries again (refused), even
   its flush and drop are refused; /a flushes and is dropped; /c is STILL refused (b is not dropped); /b's 500 goes
   out in two pieces, drop; then /c at last: write, flush, drop. *)
Definition ex_attempts : list (label ascii) :=
  [New ascii; New ascii; New ascii;
   Write ascii 2 (ex_b 2);
   Write ascii 0 (firstn 20 (ex_b 0));
   Write ascii 1 (ex_b 1);
   Write ascii 0 (skipn 20 (ex_b 0));
   Write ascii 2 (ex_b 2); Flush ascii 2; DropW ascii 2;
   Flush ascii 0; DropW ascii 0;
   Write ascii 2 (ex_b 2);
   Write ascii 1 (firstn 5 (ex_b 1)); Write ascii 1 (skipn 5 (ex_b 1)); DropW ascii 1;
   Write ascii 2 (ex_b 2); Flush ascii 2; DropW ascii 2].

(* the operations that went through *)
Definition ex_ls : list (label ascii) :=
  [New ascii; New ascii; New ascii;
   Write ascii 0 (firstn 20 (ex_b 0)); Write ascii 0 (skipn 20 (ex_b 0)); Flush ascii 0; DropW ascii 0;
   Write ascii 1 (firstn 5 (ex_b 1)); Write ascii 1 (skipn 5 (ex_b 1)); DropW ascii 1;
   Write ascii 2 (ex_b 2); Flush ascii 2; DropW ascii 2].

Example c01c_example_attempts :
  snd (exec ascii (init ascii) ex_attempts) = ex_ls /\
  stream ascii (fst (exec ascii (init ascii) ex_attempts)) = o_wire ex_o /\
  run ascii true (init ascii) [New ascii; New ascii; New ascii; Write ascii 2 (ex_b 2)] = None /\
  run ascii true (init ascii) [New ascii; New ascii; New ascii; Write ascii 0 (firstn 20 (ex_b 0)); Write ascii 1 (ex_b 1)] = None.
Proof. vm_compute. repeat split. Qed.

(* hypotheses (a)(b)(c) of c01_any_interleaving_same_wire hold for ex_ls ... *)
Example c01c_example_hyps :
  (exists cs, run ascii true (init ascii) ex_ls = Some cs) /\
  List.length (filter (is_new ascii) ex_ls) = List.length ex_segs /\
  (forall i, (i < List.length ex_segs)%nat -> writes_of ascii i ex_ls = seg_bytes (s "D") (nth i ex_segs S505)).
Proof.
  split; [eexists; vm_compute; reflexivity|]. split; [vm_compute; reflexivity|].
  intros [|[|[|i]]] H; [vm_compute; reflexivity ..|]. exfalso. vm_compute in H. lia.
Qed.

(* ... so the theorem applies (not by computing the stream) *)
Example c01c_example_theorem_applies :
  forall cs, run ascii true (init ascii) ex_ls = Some cs -> stream ascii cs = o_wire ex_o.
Proof.
  intros cs H. destruct c01c_example_hyps as (_ & Hb & Hc).
  apply (c01_any_interleaving_same_wire (s "D") C06.c06_script C06.c06_dflt (pipeline C06.c06_ts) true ex_segs ex_ls cs);
    [vm_compute; reflexivity|exact H|exact Hb|exact Hc].
Qed.

(* an interleaving in which the heads are parsed while earlier requests are being answered: same stream *)
Example c01c_example_late_heads :
  match run ascii true (init ascii)
          [New ascii; Write ascii 0 (ex_b 0); New ascii; DropW ascii 0; Write ascii 1 (ex_b 1); DropW ascii 1;
           New ascii; Write ascii 2 (ex_b 2); DropW ascii 2] with
  | Some cs => stream ascii cs = o_wire ex_o
  | None => False
  end.
Proof. vm_compute. reflexivity. Qed.

(* the same sequence as an interleaving of the connection thread [New; New; New] with the three threads' programs;
   c01_any_thread_interleaving_same_wire applies *)
Definition ex_opss : list (list (op ascii)) := [[OWrite ascii (ex_b 0)]; [OWrite ascii (ex_b 1)]; [OWrite ascii (ex_b 2)]].
Definition ex_late : list (label ascii) :=
  [New ascii; Write ascii 0 (ex_b 0); New ascii; DropW ascii 0; Write ascii 1 (ex_b 1); DropW ascii 1;
   New ascii; Write ascii 2 (ex_b 2); DropW ascii 2].
Example c01c_example_interleaving :
  map (data ascii) ex_opss = map (seg_bytes (s "D")) ex_segs /\
  interleaving (repeat (New ascii) (List.length ex_segs) :: progs ascii 0 ex_opss) ex_late.
Proof.
  split; [vm_compute; reflexivity|].
  exists (arrival ascii 0 ex_opss). split.
  - rewrite <- concat_progs. apply interleaving_concat.
  - vm_compute. repeat constructor.
Qed.

(* an intermediate state (after the first 8 operations of ex_ls): response 0 complete, 5 bytes of response 1,
   nothing of response 2: k = 1, p = "HTTP/"; the state is `consistent` and writer 1 is the least undropped *)
Example c01c_example_prefix :
  match run ascii true (init ascii) (firstn 8 ex_ls) with
  | Some cs1 => stream ascii cs1 = segs_bytes (s "D") (firstn 1 ex_segs) ++ s "HTTP/" /\
                map (dropped ascii) (ws ascii cs1) = [true; false; false] /\
                map (sent ascii) (ws ascii cs1) = [ex_b 0; s "HTTP/"; []] /\
                run ascii true cs1 (skipn 8 ex_ls) <> None
  | None => False
  end.
Proof. vm_compute. repeat split. discriminate. Qed.

Example c01c_example_consistent :
  match run ascii true (init ascii) (firstn 8 ex_ls) with
  | Some cs1 => consistent ascii (map (seg_bytes (s "D")) ex_segs) cs1
  | None => False
  end.
Proof.
  vm_compute. intros [|[|[|[|i]]]] w H; inversion H; subst w; cbn.
  - split; [exists []; reflexivity|reflexivity].
  - split; [eexists; reflexivity|discriminate].
  - split; [eexists; reflexivity|discriminate].
Qed.

(* the mixed connection of Props/C06.v: a dropped request, an HTTP/2.0 head (505 written by the connection thread
   through the rejected request's writer), a raw-writer answer with interim 100, a final 400. The connection
   thread's own 505 is refused while request 0 is unanswered; it goes through after writer 0 is dropped *)
Definition ex2_o : outcome := serve fixed (s "D") [C06.c06_a1; C06.c06_a2] C06.c06_dflt C06.c06_mixed false.
Definition ex2_segs : list seg :=
  match o_reqs ex2_o with
  | [d1; d2] => [SReq C06.c06_a1 d1; S505; SReq C06.c06_a2 d2; SRefuse 400 (1, 1)%N false]
  | _ => []
  end.
Definition ex2_b (i : nat) : Bytes.bytes := seg_bytes (s "D") (nth i ex2_segs S505).
Example c01c_example_mixed :
  o_wire ex2_o = segs_bytes (s "D") ex2_segs /\ List.length ex2_segs = 4%nat /\
  (* the 505 cannot be written before request 0 is answered *)
  run ascii true (init ascii) [New ascii; New ascii; Write ascii 1 (ex2_b 1)] = None /\
  match run ascii true (init ascii)
          [New ascii; New ascii; Write ascii 0 (ex2_b 0); DropW ascii 0;
           Write ascii 1 (ex2_b 1); Flush ascii 1; DropW ascii 1;
           New ascii; New ascii; Write ascii 2 (firstn 25 (ex2_b 2)); Write ascii 2 (skipn 25 (ex2_b 2)); DropW ascii 2;
           Write ascii 3 (ex2_b 3); DropW ascii 3] with
  | Some cs => stream ascii cs = o_wire ex2_o
  | None => False
  end.
Proof. vm_compute. repeat split. Qed.

(* a head whose Expect is not 100-continue: request::new_request fails AFTER the request's writer was taken
   (client.rs:140); that writer is dropped unwritten (block []), the 417 goes through one more writer.
   c01_any_interleaving_blocks applies with blocks = [[]; the 417] *)
Definition ex3_o : outcome :=
  serve fixed (s "D") [] C06.c06_dflt
    (s "POST /p HTTP/1.1" ++ CRLF ++ s "Content-Length: 3" ++ CRLF ++ s "Expect: nonsense" ++ CRLF ++ CRLF ++ s "abc") true.
Definition ex3_blocks : list Bytes.bytes := [[]; error_bytes (s "D") 417 (1, 1)%N true].
Definition ex3_ls : list (label ascii) :=
  [New ascii; New ascii; DropW ascii 0; Write ascii 1 (nth 1 ex3_blocks []); DropW ascii 1].
Example c01c_example_discarded_writer :
  o_wire ex3_o = segs_bytes (s "D") [SRefuse 417 (1, 1)%N true] /\ o_wire ex3_o = List.concat ex3_blocks /\
  List.length (filter (is_new ascii) ex3_ls) = List.length ex3_blocks /\
  writes_of ascii 0 ex3_ls = nth 0 ex3_blocks [] /\ writes_of ascii 1 ex3_ls = nth 1 ex3_blocks [] /\
  match run ascii true (init ascii) ex3_ls with
  | Some cs => stream ascii cs = o_wire ex3_o
  | None => False
  end.
Proof. vm_compute. repeat split. Qed.
