(* Props/C15.v — C15: the client disappears. Proofs in Http/C15Facts.v, Http/C15HeadFacts.v
   (see also Props/C12.v, c12_halfclose_still_answered: after an orderly close the complete
   requests are still delivered and answered before the server closes). *)
From TH Require Import Base.Bytes Http.Response Http.Request Http.Body Http.Serve
  Http.ServeFacts Http.ServeStreamFacts Http.C15Facts Http.C15HeadFacts Http.C12ManyFacts.

(* (a) the head reader reports "stream ended first": nothing more is delivered, nothing is sent *)
Theorem c15_incomplete_head_not_delivered : forall c date f script dflt st wire reqs al ok,
  read_head c (sbytes st) = HeadEof ->
  serve_loop c date (S f) script dflt st wire reqs al ok =
  mkO (frev reqs) wire (if seof st then CClosed else COpen) al ok.
Proof. exact incomplete_head_not_delivered. Qed.
Print Assumptions c15_incomplete_head_not_delivered.

(* ... and that is what happens for EVERY cut strictly inside a head: if x ++ t begins with a
   complete head after which fewer than |t| bytes remain, x alone gives HeadEof *)
Theorem c15_head_cut : forall c x t m url ver hs rest,
  read_head c (x ++ t) = HeadOk m url ver hs rest -> (List.length rest < List.length t)%nat ->
  read_head c x = HeadEof.
Proof. exact read_head_cut. Qed.
Print Assumptions c15_head_cut.

Theorem c15_serve_cut_in_head : forall date script dflt x t eof m url ver hs rest,
  read_head fixed (x ++ t) = HeadOk m url ver hs rest -> (List.length rest < List.length t)%nat ->
  serve fixed date script dflt x eof = mkO [] [] (if eof then CClosed else COpen) [] true.
Proof. exact serve_cut_in_head. Qed.
Print Assumptions c15_serve_cut_in_head.

(* a line is complete iff a CR LF pair has arrived *)
Theorem c15_read_line_none_iff : forall x,
  read_line x = None <-> ~ (exists a b, x = a ++ CR :: LF :: b).
Proof. exact read_line_none_iff. Qed.
Print Assumptions c15_read_line_none_iff.

(* (b) head complete, small body (pre-read before delivery) not completely there: not delivered *)
Theorem c15_incomplete_buffered_body_not_delivered :
  forall c date f script dflt st wire reqs al ok m url ver hs rest n bl ex,
  read_head c (sbytes st) = HeadOk m url ver hs rest ->
  framing c hs = FrOk (KBuffered n) bl ex -> (len rest < n)%N ->
  serve_loop c date (S f) script dflt st wire reqs al ok =
  mkO (frev reqs) wire (if seof st then CClosed else COpen) (n :: al) ok.
Proof. exact incomplete_buffered_body_not_delivered. Qed.
Print Assumptions c15_incomplete_buffered_body_not_delivered.

(* (c) once the client has closed, no application read blocks, whatever the reader ... *)
Theorem c15_body_reads_terminate : forall c n r st al, seof st = true ->
  fst (fst (fst (body_read c n r st al))) <> RBlock /\ seof (snd (fst (body_read c n r st al))) = true.
Proof. exact body_read_eof. Qed.
Print Assumptions c15_body_reads_terminate.

(* ... so every handler script's read loops end (not in EndBlock) ... *)
Theorem c15_handler_loop_ends : forall c date act m ver hs expects rd st1 al1, seof st1 = true ->
  h_end (handle c date act m ver hs expects rd st1 al1) <> EndBlock /\
  seof (h_st4 (handle c date act m ver hs expects rd st1 al1)) = true.
Proof. exact handle_eof. Qed.
Print Assumptions c15_handler_loop_ends.

(* ... and the server never hangs: for every input after which the client has closed, every
   script, it ends by closing the connection *)
Theorem c15_serve_eof_closes : forall date script dflt input,
  o_end (serve fixed date script dflt input true) = CClosed.
Proof. exact serve_eof_closes. Qed.
Print Assumptions c15_serve_eof_closes.

(* every cut of a pipeline of simple requests (GET <target> HTTP/1.1, Host: h) inside the head of
   the next one: exactly the complete requests are delivered and answered, then the server closes
   (orderly close) or waits (no close yet); the incomplete request is never delivered *)
Theorem c15_pipeline_cut : forall date dflt script ts t x y eof,
  Forall good_target ts -> good_target t -> sr_bytes t = x ++ y -> y <> [] ->
  serve fixed date script dflt (pipeline ts ++ x) eof =
  mkO (deliveries dflt script ts) (answers date dflt script ts)
      (if eof then CClosed else COpen) [] (all_ok date dflt script ts).
Proof. exact pipeline_cut. Qed.
Print Assumptions c15_pipeline_cut.

(* ---- non-vacuity ---- *)
Example c15_example_pipeline_cut :
  Forall good_target [s "/a"; s "/b"] /\ good_target (s "/c") /\
  sr_bytes (s "/c") = firstn 20 (sr_bytes (s "/c")) ++ skipn 20 (sr_bytes (s "/c")) /\
  skipn 20 (sr_bytes (s "/c")) <> [] /\
  map d_url (o_reqs (serve fixed (s "D") [] (mkA [] (FRespond 200 (s "ok") true))
                       (pipeline [s "/a"; s "/b"] ++ firstn 20 (sr_bytes (s "/c"))) true)) = [s "/a"; s "/b"].
Proof. split; [repeat constructor|]. vm_compute. repeat split; try reflexivity. discriminate. Qed.
Definition c15_full : bytes :=
  s "POST /a HTTP/1.1" ++ CRLF ++ s "Host: h" ++ CRLF ++ s "Content-Length: 5" ++ CRLF ++ CRLF ++ s "hello".
Example c15_example_cut :
  (* the cut: after "POST /a HTTP/1.1\r\nHost: h\r" *)
  let x := firstn 26 c15_full in let t := skipn 26 c15_full in
  x ++ t = c15_full /\
  (exists hs, read_head fixed (x ++ t) = HeadOk (s "POST") (s "/a") (1, 1)%N hs (s "hello")) /\
  Nat.ltb (List.length (s "hello")) (List.length t) = true /\
  serve fixed (s "D") [] (mkA [] FDrop) x true = mkO [] [] CClosed [] true.
Proof. vm_compute. repeat split; try reflexivity. eexists. reflexivity. Qed.
Example c15_example_short_body :
  let x := firstn (List.length c15_full - 2) c15_full in
  let o := serve fixed (s "D") [] (mkA [] FDrop) x true in
  o_reqs o = [] /\ o_wire o = [] /\ o_end o = CClosed /\
  o_end (serve fixed (s "D") [] (mkA [] FDrop) x false) = COpen.
Proof. vm_compute. repeat split; reflexivity. Qed.
(* a large body cut short, the handler reads it: the read ends (EndEof/EndErr), the server closes *)
Example c15_example_reads_end :
  let x := s "POST /a HTTP/1.1" ++ CRLF ++ s "Content-Length: 5000" ++ CRLF ++ CRLF ++ s "hel" in
  let o := serve fixed (s "D") [] (mkA [(5000%N, 64%nat)] (FRespond 200 [] true)) x true in
  map d_read (o_reqs o) = [s "hel"] /\ map d_end (o_reqs o) <> [EndBlock] /\ o_end o = CClosed.
Proof. vm_compute. repeat split; try reflexivity. discriminate. Qed.
