(* Props/C17Api.v — C17 (and C07) at the level of the Server's receive API driven by ONE thread, each call running to
   its return before the next operation starts (harness `su`): u = unblock(), q k = request k arrives, t T =
   recv_timeout(T), y = try_recv(), r = recv() / incoming_requests().next().
   `su_run` (Conc/ServerApi.v) is the executable glue that plays such a script on the queue model Conc/MsgQueue.v
   (Instances.mq_step, repaired tree, one receiver); `su_spec` is the FIFO reading of the property.
   Statements only; proofs are in Conc/ServerApiFacts.v.  ALL scripts, any length. *)
From Coq Require Import List Arith Lia.
Import ListNotations.
From TH Require Import Conc.MsgQueue Conc.Instances Conc.ServerApi Conc.ServerApiFacts.

(* (1) the glue never gets stuck: every model step it takes is enabled, the blocked-call branches reach Idle again
   within the 4 Resume rounds the glue allows, the receiver is Idle at the end ... *)
Theorem c17_api_never_stuck : forall ops : list su_op, su_run ops <> None.
Proof. exact su_run_never_stuck. Qed.
Print Assumptions c17_api_never_stuck.

(* ... in fact ONE Resume step brings every blocked call back (any fuel >= 1 gives the same, specified, results);
   with no Resume at all a blocked call stays blocked (Examples below) *)
Theorem c17_api_resume_bound :
  forall (fuel : nat) (ops : list su_op), 1 <= fuel -> su_run_f fuel ops = Some (su_spec ops).
Proof. exact su_resume_bound. Qed.
Print Assumptions c17_api_resume_bound.

(* (2) the model behaves as ONE fifo of requests and unblock tokens: full strength, all scripts *)
Theorem c17_api_is_fifo : forall ops : list su_op, su_run ops = Some (su_spec ops).
Proof. exact su_run_is_spec. Qed.
Print Assumptions c17_api_is_fifo.

(* the script is a run of the queue model from its initial state (labels su_trace [] ops), so every theorem about
   MsgQueue.run (Props/C07.v, C07Glue.v, C17.v) applies to it; between operations the receiver is Idle and the queue
   is the fifo of the specification *)
Theorem c17_api_is_model_run :
  forall ops : list su_op,
    exists s : st nat,
      run nat mq_MS mq_EPS true (init nat 1) (su_trace [] ops) = Some s /\
      su_run_from su_fuel su_init ops = Some (s, su_spec ops) /\
      rs nat s = [Idle] /\ q nat s = map enc (su_final_fifo ops).
Proof. exact su_run_is_model_run. Qed.
Print Assumptions c17_api_is_model_run.

(* (3) unblock releases exactly one call: the `u` of a script are as many as the receive calls that consumed a token
   (su_token_calls: a y / t / r executed when the oldest fifo entry is a token) plus the tokens still queued ... *)
Theorem c17_api_unblock_releases_exactly_one :
  forall ops : list su_op,
    su_unblocks ops = su_token_calls [] ops + fifo_toks (su_final_fifo ops).
Proof. exact su_unblock_releases_exactly_one. Qed.
Print Assumptions c17_api_unblock_releases_exactly_one.

(* ... and these are the model's own counters: `tokrets` counts exactly those calls plus the hanging recv calls the
   harness released with an unblock of its own, `unblocks` the script's u plus those; `got` / `pushed` / the queue
   are the values handed out / arrived / waiting; `tlog` has one entry per timed call that returned by time *)
Theorem c17_api_model_counters :
  forall (ops : list su_op) (s : st nat) (res : list su_res),
    su_run_from su_fuel su_init ops = Some (s, res) ->
    res = su_spec ops /\
    got nat s = su_vals res /\ pushed nat s = su_pushes ops /\ elems nat (q nat s) = fifo_reqs (su_final_fifo ops) /\
    tokrets nat s = su_token_calls [] ops + su_hangs res /\ unblocks nat s = su_unblocks ops + su_hangs res /\
    ntok nat (q nat s) = fifo_toks (su_final_fifo ops) /\ length (tlog nat s) = su_fulls res.
Proof. exact su_model_counters. Qed.
Print Assumptions c17_api_model_counters.

(* the requests handed out (the SrVal results, in order) followed by the requests still in the fifo are the arguments
   of the `q` operations in order: nothing lost, duplicated or reordered, whatever unblocks and time-outs occur *)
Theorem c17_api_requests_in_order_once :
  forall ops : list su_op,
    su_vals (su_spec ops) ++ fifo_reqs (su_final_fifo ops) = su_pushes ops.
Proof. exact su_requests_in_order_once. Qed.
Print Assumptions c17_api_requests_in_order_once.

(* try_recv never blocks.  Whole scripts: the results are, one by one, the results of the script's receive calls, and
   a `y` yields a value or SrNone true, never SrHang / SrNone false / SrErr (res_shape) ... *)
Theorem c17_api_try_never_blocks :
  forall (ops : list su_op) (res : list su_res),
    su_run ops = Some res -> Forall2 res_shape (filter is_recv ops) res.
Proof. exact su_try_never_blocks_run. Qed.
Print Assumptions c17_api_try_never_blocks.

(* ... and in every state a script can reach, a `y` is ONE enabled step of the model (CallTry), after which the
   receiver is Idle, and it takes no model time *)
Theorem c17_api_try_is_one_step :
  forall (pre : list su_op) (s : st nat) (res : list su_res),
    su_run_from su_fuel su_init pre = Some (s, res) ->
    exists (s' : st nat) (r : su_res),
      su_step s SuY = Some (s', Some r) /\ su_mstep s (CallTry nat 0) = Some s' /\
      su_idle s' = true /\ now nat s' = now nat s /\ tlog nat s' = tlog nat s /\ res_shape SuY r.
Proof. exact su_try_never_blocks. Qed.
Print Assumptions c17_api_try_is_one_step.

(* recv_timeout(T) returns "nothing, by time" exactly when the fifo is empty at the call; then the model logs the
   return (call time, T, return time) with T <= return - call <= 2T + EPS (here: exactly T after the call, the
   harness advancing the clock to the deadline); every other outcome (value / token) takes no model time *)
Theorem c17_api_timed_bounds :
  forall (pre : list su_op) (T : nat) (s : st nat) (res : list su_res),
    su_run_from su_fuel su_init pre = Some (s, res) ->
    exists (s' : st nat) (r : su_res),
      su_step s (SuT T) = Some (s', Some r) /\
      (r = SrNone false <-> su_final_fifo pre = []) /\
      (r = SrNone false ->
         exists t1, tlog nat s' = tlog nat s ++ [(now nat s, T, t1)] /\ now nat s' = t1 /\
                    now nat s + T <= t1 /\ t1 <= now nat s + 2 * T + mq_EPS) /\
      (r <> SrNone false -> tlog nat s' = tlog nat s /\ now nat s' = now nat s).
Proof. exact su_timed_bounds. Qed.
Print Assumptions c17_api_timed_bounds.

(* the whole log after a script: one entry per SrNone false result, each exactly T after its call, hence inside the
   bounds of c17_timed_lower / c17_timed_upper (reused through c17_api_is_model_run) *)
Theorem c17_api_tlog_bounds :
  forall (ops : list su_op) (s : st nat) (res : list su_res),
    su_run_from su_fuel su_init ops = Some (s, res) ->
    length (tlog nat s) = su_fulls res /\
    forall t0 T t1, In (t0, T, t1) (tlog nat s) ->
      t1 = t0 + T /\ T <= (t1 - t0) + mq_MS /\ t1 <= t0 + 2 * T + mq_EPS.
Proof. exact su_tlog_bounds. Qed.
Print Assumptions c17_api_tlog_bounds.

(* ---------- (4) examples: what the real server did (times in model units, 0.1 ms) ---------- *)
Definition ex_script1 : list su_op := [SuU; SuT 3000; SuT 2000; SuQ 1; SuQ 2; SuU; SuY; SuR; SuR; SuY; SuR].
Definition ex_script2 : list su_op := [SuQ 5; SuU; SuT 3000; SuT 3000; SuY; SuU; SuU; SuR; SuR; SuT 1000].

(* N fast, N full, 1, 2, E, N, hang *)
Example c17_api_example1 :
  su_run ex_script1 = Some [SrNone true; SrNone false; SrVal 1; SrVal 2; SrErr; SrNone true; SrHang].
Proof. vm_compute. reflexivity. Qed.
Example c17_api_example1_spec :
  su_spec ex_script1 = [SrNone true; SrNone false; SrVal 1; SrVal 2; SrErr; SrNone true; SrHang].
Proof. vm_compute. reflexivity. Qed.

(* 5 fast, N fast, N, E, E, N full *)
Example c17_api_example2 :
  su_run ex_script2 = Some [SrVal 5; SrNone true; SrNone true; SrErr; SrErr; SrNone false].
Proof. vm_compute. reflexivity. Qed.
Example c17_api_example2_spec :
  su_spec ex_script2 = [SrVal 5; SrNone true; SrNone true; SrErr; SrErr; SrNone false].
Proof. vm_compute. reflexivity. Qed.

(* the hypothesis of the per-state theorems holds (it does for every script, by c17_api_is_model_run); the model's
   state after script 1: one timed call returned by time (t 2000, called at time 0: t 3000 consumed the token at once),
   one hanging recv released by the harness's own unblock (so 3 unblocks, 3 token returns) *)
Example c17_api_example1_state :
  match su_run_from su_fuel su_init ex_script1 with
  | Some (s, res) => tlog nat s = [(0, 2000, 2000)] /\ now nat s = 2000 /\ got nat s = [1; 2] /\ pushed nat s = [1; 2] /\
                     unblocks nat s = 3 /\ tokrets nat s = 3 /\ q nat s = [] /\ su_hangs res = 1
  | None => False
  end.
Proof. vm_compute. repeat split; reflexivity. Qed.

(* the observers of (3) on concrete scripts: 2 unblocks = 2 token calls + 0 left; 2 unblocks = 1 token call + 1 left,
   request 8 still queued behind it *)
Example c17_api_example_counts :
  su_unblocks ex_script1 = 2 /\ su_token_calls [] ex_script1 = 2 /\ su_final_fifo ex_script1 = [] /\
  su_unblocks [SuU; SuQ 7; SuU; SuQ 8; SuR; SuR] = 2 /\ su_token_calls [] [SuU; SuQ 7; SuU; SuQ 8; SuR; SuR] = 1 /\
  su_final_fifo [SuU; SuQ 7; SuU; SuQ 8; SuR; SuR] = [None; Some 8] /\
  su_spec [SuU; SuQ 7; SuU; SuQ 8; SuR; SuR] = [SrErr; SrVal 7] /\
  su_pushes [SuU; SuQ 7; SuU; SuQ 8; SuR; SuR] = [7; 8].
Proof. vm_compute. repeat split; reflexivity. Qed.

(* the labels of the model that script 2 stands for *)
Example c17_api_example2_trace :
  su_trace [] ex_script2 =
  [Push nat 5 None; Unblock nat None; CallTimed nat 0 3000; CallTimed nat 0 3000; CallTry nat 0; Unblock nat None;
   Unblock nat None; CallPop nat 0; CallPop nat 0; CallTimed nat 0 1000; Tick nat 1000; Timeout nat 0; Resume nat 0].
Proof. vm_compute. reflexivity. Qed.

(* the bound of c17_api_resume_bound is tight: without a Resume step a blocked call does not return *)
Example c17_api_fuel0_timed : su_run_f 0 [SuT 5] = None /\ su_run_f 1 [SuT 5] = Some [SrNone false].
Proof. vm_compute. split; reflexivity. Qed.
Example c17_api_fuel0_recv : su_run_f 0 [SuR] = None /\ su_run_f 1 [SuR] = Some [SrHang].
Proof. vm_compute. split; reflexivity. Qed.
