(* Props/C10.v — placeholder; theorems are added below as the proofs land. *)
From TH Require Import Base.Bytes Http.Response Http.Request Http.Body Http.Serve.
Example c10_example_505 :
  let o := serve fixed (s "D") [] (mkA [] (FRespond 200 (s "ok") true))
                 (s "GET /a HTTP/2.0" ++ CRLF ++ CRLF ++ s "GET /b HTTP/1.1" ++ CRLF ++ CRLF) true in
  map d_url (o_reqs o) = [s "/b"] /\ o_end o = CClosed.
Proof. vm_compute. split; reflexivity. Qed.
(* the tree as found: the connection thread waits for ever on its own request's writer (D5) *)
Example c10_asfound_refuted :
  o_end (serve asfound (s "D") [] (mkA [] (FRespond 200 (s "ok") true))
               (s "GET /a HTTP/2.0" ++ CRLF ++ CRLF) true) = CHang.
Proof. vm_compute. reflexivity. Qed.

(* ======================================================================================== *)
From TH Require Import Http.LineFacts Http.HeadFacts Http.FramingFacts Http.ServeRefuseFacts.
Open Scope char_scope.

(* ---- classification by the head parser (any configuration c) ---- *)
(* the request line is the first line the reader delimits: read_line x = Some (l, rest) *)
Theorem c10_few_fields : forall c x l rest,
  read_line x = Some (l, rest) -> all_ascii l = true ->
  (List.length (split_on SP (trim l)) < 3)%nat -> read_head c x = HeadBadLine.
Proof. intros c x l rest R A F. apply (read_head_bad_line c x l rest R A). now apply parse_request_line_few. Qed.
Print Assumptions c10_few_fields.

Theorem c10_version_tokens : forall v : bytes,
  parse_version v = None <->
  ~ In v [s "HTTP/0.9"; s "HTTP/1.0"; s "HTTP/1.1"; s "HTTP/2.0"; s "HTTP/3.0"].
Proof. exact parse_version_none. Qed.
Print Assumptions c10_version_tokens.

Theorem c10_unknown_version : forall c x l rest m p v more,
  read_line x = Some (l, rest) -> all_ascii l = true ->
  split_on SP (trim l) = m :: p :: v :: more ->
  ~ In v [s "HTTP/0.9"; s "HTTP/1.0"; s "HTTP/1.1"; s "HTTP/2.0"; s "HTTP/3.0"] ->
  read_head c x = HeadBadLine.
Proof.
  intros c x l rest m p v more R A E V. apply (read_head_bad_line c x l rest R A).
  now apply (parse_request_line_bad_version _ m p v more).
Qed.
Print Assumptions c10_unknown_version.

Theorem c10_non_ascii_request_line : forall c x l rest,
  read_line x = Some (l, rest) -> all_ascii l = false -> read_head c x = HeadNonAscii.
Proof. exact read_head_nonascii_line. Qed.
Print Assumptions c10_non_ascii_request_line.

(* the same three for a request line given explicitly, followed by ANY bytes *)
Theorem c10_request_line_rendered : forall c l tail, no_crlf l = true ->
  (all_ascii l = false -> read_head c (l ++ CRLF ++ tail) = HeadNonAscii) /\
  (all_ascii l = true -> (List.length (split_on SP (trim l)) < 3)%nat ->
     read_head c (l ++ CRLF ++ tail) = HeadBadLine) /\
  (all_ascii l = true -> forall m p v more, split_on SP (trim l) = m :: p :: v :: more ->
     parse_version v = None -> read_head c (l ++ CRLF ++ tail) = HeadBadLine).
Proof.
  intros c l tail C. pose proof (read_line_app l tail C) as R. split; [|split].
  - intros A. now apply (read_head_nonascii_line c _ l tail).
  - intros A F. apply (read_head_bad_line c _ l tail R A). now apply parse_request_line_few.
  - intros A m p v more E V. apply (read_head_bad_line c _ l tail R A).
    apply (parse_request_line_bad_version _ m p v more E). now apply parse_version_none.
Qed.
Print Assumptions c10_request_line_rendered.

(* a header line that is reached: non-ASCII, or without a colon *)
Theorem c10_non_ascii_header_line : forall rl m u ver goods bad tail,
  all_ascii rl = true -> no_crlf rl = true -> parse_request_line (trim rl) = Some (m, u, ver) ->
  forallb good_line goods = true ->
  all_ascii bad = false -> no_crlf bad = true ->
  read_head fixed (rl ++ CRLF ++ lines goods ++ bad ++ CRLF ++ tail) = HeadNonAscii.
Proof. exact read_head_nonascii_header. Qed.
Print Assumptions c10_non_ascii_header_line.

Theorem c10_header_without_colon : forall rl m u ver goods bad tail,
  all_ascii rl = true -> no_crlf rl = true -> parse_request_line (trim rl) = Some (m, u, ver) ->
  forallb good_line goods = true ->
  all_ascii bad = true -> no_crlf bad = true -> bad <> [] -> nosep ":" bad = true ->
  read_head fixed (rl ++ CRLF ++ lines goods ++ bad ++ CRLF ++ tail) = HeadBadHeader ver.
Proof. intros. apply (read_head_bad_header rl m u); auto. now apply bad_no_colon. Qed.
Print Assumptions c10_header_without_colon.

(* ---- Expect ---- *)
Theorem c10_unsupported_expect : forall (hs : list header) (v : bytes),
  header_value "Expect" hs = Some v -> eq_ci v (s "100-continue") = false ->
  (framing fixed hs = FrExpectationFailed \/ framing fixed hs = FrBadContentLength) /\
  ((forall w, header_value "Content-Length" hs = Some w -> cl_ok w = true) ->
   framing fixed hs = FrExpectationFailed).
Proof.
  intros hs v H E. split; [now apply (unsupported_expectation hs v)|now apply (unsupported_expectation_417 hs v)].
Qed.
Print Assumptions c10_unsupported_expect.

Theorem c10_expectation_failed_only : forall hs : list header,
  framing fixed hs = FrExpectationFailed ->
  exists v, header_value "Expect" hs = Some v /\ eq_ci v (s "100-continue") = false.
Proof. exact expectation_failed_only. Qed.
Print Assumptions c10_expectation_failed_only.

(* ---- one iteration of the connection loop, in any state ---- *)
Theorem c10_step_malformed : forall c date f script dflt st wire reqs al ok,
  (read_head c (sbytes st) = HeadBadLine ->
     serve_loop c date (S f) script dflt st wire reqs al ok
     = mkO (frev reqs) (wire ++ error_bytes date 400 (1, 1)%N false) CClosed al ok) /\
  (forall ver, read_head c (sbytes st) = HeadBadHeader ver ->
     serve_loop c date (S f) script dflt st wire reqs al ok
     = mkO (frev reqs) (wire ++ error_bytes date 400 ver false) CClosed al ok) /\
  (read_head c (sbytes st) = HeadNonAscii ->
     serve_loop c date (S f) script dflt st wire reqs al ok = mkO (frev reqs) wire CClosed al ok).
Proof. intros. split; [apply step_bad_line|split; [apply step_bad_header|apply step_non_ascii]]. Qed.
Print Assumptions c10_step_malformed.

Theorem c10_step_expectation : forall c date f script dflt st wire reqs al ok m url ver hs rest,
  read_head c (sbytes st) = HeadOk m url ver hs rest -> framing c hs = FrExpectationFailed ->
  serve_loop c date (S f) script dflt st wire reqs al ok
  = mkO (frev reqs) (wire ++ error_bytes date 417 ver true) CClosed al ok.
Proof. intros. now apply (step_expectation_failed c date f script dflt st wire reqs al ok m url ver hs rest). Qed.
Print Assumptions c10_step_expectation.

(* a version above 1.1: not delivered (reqs unchanged), 505 on the wire, and the loop goes on with
   what follows the refused request (its body, if any, is skipped by dropping its reader) *)
Theorem c10_step_505 : forall date f script dflt st wire reqs al ok m url ver hs rest kind bl ex rd st1 al1,
  read_head fixed (sbytes st) = HeadOk m url ver hs rest -> framing fixed hs = FrOk kind bl ex ->
  ver = (2, 0)%N \/ ver = (3, 0)%N ->
  build_reader kind rest (seof st) al = inl (Some (rd, st1, al1)) ->
  serve_loop fixed date (S f) script dflt st wire reqs al ok
  = serve_loop fixed date f script dflt (fst (body_drop fixed rd st1 al1)) (wire ++ bytes_505 date) reqs
               (snd (body_drop fixed rd st1 al1)) ok.
Proof.
  intros date f script dflt st wire reqs al ok m url ver hs rest kind bl ex rd st1 al1 H F V B.
  apply (step_505 date f script dflt st wire reqs al ok m url ver hs rest kind bl ex rd st1 al1 H F); [|exact B].
  destruct V as [-> | ->]; reflexivity.
Qed.
Print Assumptions c10_step_505.

Theorem c10_step_505_no_body : forall date f script dflt st wire reqs al ok m url ver hs rest bl ex,
  read_head fixed (sbytes st) = HeadOk m url ver hs rest -> framing fixed hs = FrOk KEmpty bl ex ->
  ver = (2, 0)%N \/ ver = (3, 0)%N ->
  serve_loop fixed date (S f) script dflt st wire reqs al ok
  = serve_loop fixed date f script dflt (mkS rest (seof st)) (wire ++ bytes_505 date) reqs al ok.
Proof.
  intros date f script dflt st wire reqs al ok m url ver hs rest bl ex H F V.
  apply (step_505_no_body date f script dflt st wire reqs al ok m url ver hs rest bl ex H F).
  destruct V as [-> | ->]; reflexivity.
Qed.
Print Assumptions c10_step_505_no_body.

(* these are all the versions above 1.1 a parsed request line can carry *)
Theorem c10_versions_above_11 : forall x m u ver, parse_request_line x = Some (m, u, ver) ->
  ver_gt_11 ver = true <-> ver = (2, 0)%N \/ ver = (3, 0)%N.
Proof. exact parsed_version_gt_11. Qed.
Print Assumptions c10_versions_above_11.

(* ---- the whole connection, the refused head first ---- *)
Theorem c10_serve_first : forall date script dflt input eof,
  (read_head fixed input = HeadBadLine ->
     serve fixed date script dflt input eof = mkO [] (error_bytes date 400 (1, 1)%N false) CClosed [] true) /\
  (forall ver, read_head fixed input = HeadBadHeader ver ->
     serve fixed date script dflt input eof = mkO [] (error_bytes date 400 ver false) CClosed [] true) /\
  (read_head fixed input = HeadNonAscii ->
     serve fixed date script dflt input eof = mkO [] [] CClosed [] true) /\
  (forall m url ver hs rest, read_head fixed input = HeadOk m url ver hs rest ->
     framing fixed hs = FrExpectationFailed ->
     serve fixed date script dflt input eof = mkO [] (error_bytes date 417 ver true) CClosed [] true).
Proof.
  intros. split; [apply serve_bad_line|split; [intros ver; apply serve_bad_header|split; [apply serve_non_ascii|]]].
  intros m url ver hs rest. apply serve_expectation_failed.
Qed.
Print Assumptions c10_serve_first.

Theorem c10_error_bytes_status : forall date st ver nb, exists more,
  error_bytes date st ver nb =
  s "HTTP/" ++ print_dec (fst ver) ++ s "." ++ print_dec (snd ver) ++ [SP] ++ print_dec st ++ [SP]
  ++ Reason.reason_phrase st ++ CRLF ++ more.
Proof. exact error_bytes_status_line. Qed.
Print Assumptions c10_error_bytes_status.

(* ---- the hypotheses are satisfiable ---- *)
Example c10_example_lines :
  read_line (s "GET /a" ++ CRLF ++ s "X: y" ++ CRLF) = Some (s "GET /a", s "X: y" ++ CRLF) /\
  List.length (split_on SP (trim (s "GET /a"))) = 2%nat /\
  split_on SP (trim (s "GET /a HTTP/1.2 x")) = [s "GET"; s "/a"; s "HTTP/1.2"; s "x"] /\
  parse_version (s "HTTP/1.2") = None /\ parse_version (s "http/1.1") = None /\
  all_ascii (s "GET /" ++ ["233"] ++ s " HTTP/1.1") = false /\
  read_head fixed (s "GET /a" ++ CRLF ++ CRLF) = HeadBadLine /\
  read_head fixed (s "GET /a HTTP/1.2" ++ CRLF ++ CRLF) = HeadBadLine /\
  read_head fixed (s "GET /" ++ ["233"] ++ s " HTTP/1.1" ++ CRLF ++ CRLF) = HeadNonAscii /\
  read_head fixed (s "GET / HTTP/1.1" ++ CRLF ++ s "A: b" ++ CRLF ++ s "X-" ++ ["233"] ++ s ": 1" ++ CRLF ++ CRLF) = HeadNonAscii /\
  read_head fixed (s "GET / HTTP/1.1" ++ CRLF ++ s "A: b" ++ CRLF ++ s "nocolon" ++ CRLF ++ CRLF) = HeadBadHeader (1, 1)%N.
Proof. vm_compute. repeat split; reflexivity. Qed.

Example c10_example_expect :
  let hs := [mkH (s "Host") (s "x"); mkH (s "expect") (s "200-ok"); mkH (s "Content-Length") (s "3")] in
  header_value "Expect" hs = Some (s "200-ok") /\ eq_ci (s "200-ok") (s "100-continue") = false /\
  framing fixed hs = FrExpectationFailed /\
  framing fixed [mkH (s "Expect") (s "100-Continue")] = FrOk KEmpty None true.
Proof. vm_compute. repeat split; reflexivity. Qed.

Example c10_example_outcomes :
  let a := mkA [] (FRespond 200 (s "ok") true) in
  let first26 i := firstn 26 (o_wire (serve fixed (s "D") [] a i true)) in
  first26 (s "GET /a" ++ CRLF ++ CRLF) = s "HTTP/1.1 400 Bad Request" ++ CRLF /\
  firstn 33 (o_wire (serve fixed (s "D") [] a (s "GET / HTTP/1.0" ++ CRLF ++ s "Expect: x" ++ CRLF ++ CRLF) true))
    = s "HTTP/1.0 417 Expectation Failed" ++ CRLF /\
  serve fixed (s "D") [] a (s "GET /" ++ ["233"] ++ s " HTTP/1.1" ++ CRLF ++ CRLF) true = mkO [] [] CClosed [] true /\
  firstn 41 (bytes_505 (s "D")) = s "HTTP/1.1 505 HTTP Version Not Supported" ++ CRLF.
Proof. vm_compute. repeat split; reflexivity. Qed.

(* ---- the refused head at any position: after k well-formed requests without a body that keep the
   connection alive (quiet_run, Http/ServeGoodFacts.v), whatever the handler does with them ---- *)
From TH Require Import Http.ServeGoodFacts.
Theorem c10_serve_after_requests : forall date script dflt eof goods x,
  quiet_run goods = true ->
  (read_head fixed x = HeadBadLine ->
     exists w ds ok', Forall2 delivered_as (map fst goods) ds /\
       serve fixed date script dflt (render_run goods ++ x) eof
       = mkO ds (w ++ error_bytes date 400 (1, 1)%N false) CClosed [] ok') /\
  (forall ver, read_head fixed x = HeadBadHeader ver ->
     exists w ds ok', Forall2 delivered_as (map fst goods) ds /\
       serve fixed date script dflt (render_run goods ++ x) eof
       = mkO ds (w ++ error_bytes date 400 ver false) CClosed [] ok') /\
  (read_head fixed x = HeadNonAscii ->
     exists w ds ok', Forall2 delivered_as (map fst goods) ds /\
       serve fixed date script dflt (render_run goods ++ x) eof = mkO ds w CClosed [] ok') /\
  (forall m u ver hs rest, read_head fixed x = HeadOk m u ver hs rest -> framing fixed hs = FrExpectationFailed ->
     exists w ds ok', Forall2 delivered_as (map fst goods) ds /\
       serve fixed date script dflt (render_run goods ++ x) eof
       = mkO ds (w ++ error_bytes date 417 ver true) CClosed [] ok') /\
  (forall m u ver hs rest bl ex, read_head fixed x = HeadOk m u ver hs rest ->
     framing fixed hs = FrOk KEmpty bl ex -> ver_gt_11 ver = true ->
     exists f w ds ok', (List.length rest <= f)%nat /\ Forall2 delivered_as (map fst goods) ds /\
       serve fixed date script dflt (render_run goods ++ x) eof
       = serve_loop fixed date f (skipn (List.length goods) script) dflt (mkS rest eof)
                    (w ++ bytes_505 date) (rev ds) [] ok').
Proof.
  intros date script dflt eof goods x Q.
  split; [now apply serve_run_then_bad_line|].
  split; [intros ver R; apply serve_run_then_400; [exact Q|now left]|].
  split; [now apply serve_run_then_non_ascii|].
  split; [intros m u ver hs rest; now apply serve_run_then_417|].
  intros m u ver hs rest bl ex. now apply serve_run_then_505.
Qed.
Print Assumptions c10_serve_after_requests.

Example c10_example_after_requests :
  let g t := (mkRq (s "GET") (s t) (1, 1)%N [(s "Host", s "h")], [([SP], [])]) in
  quiet_run [g "/1"%string; g "/2"%string] = true /\
  let o := serve fixed (s "D") [] (mkA [] (FRespond 200 (s "ok") true))
             (render_run [g "/1"%string; g "/2"%string] ++ s "GET /x HTTP/2.0" ++ CRLF ++ CRLF ++ s "GET /3 HTTP/1.0" ++ CRLF ++ CRLF) false in
  map d_url (o_reqs o) = [s "/1"; s "/2"; s "/3"] /\ o_end o = CClosed.
Proof. vm_compute. repeat split; reflexivity. Qed.

(* the connection remains usable after the 505: the requests that follow are delivered as sent *)
Theorem c10_505_connection_usable : forall date script dflt eof input m u ver hs bl ex goods y,
  read_head fixed input = HeadOk m u ver hs (render_run goods ++ y) ->
  framing fixed hs = FrOk KEmpty bl ex -> ver = (2, 0)%N \/ ver = (3, 0)%N ->
  quiet_run goods = true -> read_head fixed y = HeadEof ->
  exists w ds ok', Forall2 delivered_as (map fst goods) ds /\
    serve fixed date script dflt input eof
    = mkO ds (bytes_505 date ++ w) (if eof then CClosed else COpen) [] ok'.
Proof.
  intros date script dflt eof input m u ver hs bl ex goods y R F V.
  apply (serve_505_then_run date script dflt eof input m u ver hs bl ex goods y R F).
  destruct V as [-> | ->]; reflexivity.
Qed.
Print Assumptions c10_505_connection_usable.

Example c10_example_505_usable :
  let g t := (mkRq (s "GET") (s t) (1, 1)%N [(s "Host", s "h")], [([SP], [])]) in
  let goods := [g "/1"%string; g "/2"%string] in
  read_head fixed (s "GET /x HTTP/3.0" ++ CRLF ++ s "Host: h" ++ CRLF ++ CRLF ++ render_run goods ++ s "GE")
  = HeadOk (s "GET") (s "/x") (3, 0)%N [mkH (s "Host") (s "h")] (render_run goods ++ s "GE") /\
  framing fixed [mkH (s "Host") (s "h")] = FrOk KEmpty None false /\
  quiet_run goods = true /\ read_head fixed (s "GE") = HeadEof.
Proof. vm_compute. repeat split; reflexivity. Qed.
