(* Props/C10.v — placeholder; theorems are added below as the proofs land. *)
From TH Require Import Base.Bytes Http.Response Http.Request Http.Body Http.Serve.
Example c10_example_505 :
  let o := serve fixed (s "D") [] (mkA [] (FRespond 200 (s "ok") true))
                 (s "GET /a HTTP/2.0" ++ CRLF ++ CRLF ++ s "GET /b HTTP/1.1" ++ CRLF ++ CRLF) true in
  map d_url (o_reqs o) = [s "/b"] /\ o_end o = CClosed.
Proof. vm_compute. split; reflexivity. Qed.
(* the tree as found: the connection thread waits for ever on its own request's writer (D5) *)
Example c10_asfound_refuted :
  o_end (serve asfound (s "D") [] (mkA [] (FRespond 200 (s "ok") true))
               (s "GET /a HTTP/2.0" ++ CRLF ++ CRLF) true) = CHang.
Proof. vm_compute. reflexivity. Qed.
