// `rv` executor (C07 at the server API): a burst of requests on several connections, then a mix of
// receivers — recv, recv_timeout, try_recv, incoming_requests() partially consumed and dropped —
// each on its own thread; the main thread collects what is left. Every request must be handed to the
// application exactly once and every client must get its 200.
// case line:  rv <u|t> <nconn> <perconn> <recv>,<recv>,...     recv = it<k> | recv<k> | timed<k> | try<k>
// observation: total=<delivered to the application> dup=<urls delivered twice> non200=<client answers that are not 200> missing=<requests never answered>
use std::io::{Read, Write};
use std::sync::{Arc, Mutex};
use std::time::{Duration, Instant};
use tiny_http::{Request, Response, Server};

fn answer(rq: Request, log: &Arc<Mutex<Vec<String>>>) {
    let u = rq.url().to_string();
    log.lock().unwrap().push(u.clone());
    let _ = rq.respond(Response::from_string(u));
}

pub fn run_case(f: &[&str]) -> String {
    let kind = f[1];
    let nconn: usize = f[2].parse().unwrap();
    let per: usize = f[3].parse().unwrap();
    let recvs: Vec<String> = f[4].split(',').map(|x| x.to_string()).collect();
    let dir = std::env::var("TH_SOCK_DIR").unwrap_or_else(|_| "/tmp".into());
    let path = std::path::PathBuf::from(format!("{}/v{}.sock", dir, std::process::id()));
    let _ = std::fs::remove_file(&path);
    let server = Arc::new(if kind == "t" { Server::http("127.0.0.1:0").unwrap() } else { Server::http_unix(&path).unwrap() });
    // pre=<n>:<idle ms>: an earlier burst of n connections (one request each, answered, all closed), then idleness
    // (the pool's surplus workers retire after 5 s): what arrives afterwards must be delivered all the same
    if let Some(p) = f.iter().find_map(|x| x.strip_prefix("pre=")) {
        let mut it = p.split(':');
        let n: usize = it.next().unwrap().parse().unwrap();
        let idle: u64 = it.next().unwrap_or("0").parse().unwrap();
        let mut pre: Vec<crate::cv::Conn> = Vec::new();
        for k in 0..n {
            let mut s = if kind == "t" {
                crate::cv::Conn::T(std::net::TcpStream::connect(server.server_addr().to_ip().unwrap()).unwrap())
            } else {
                crate::cv::Conn::U(std::os::unix::net::UnixStream::connect(&path).unwrap())
            };
            let _ = s.write_all(format!("GET /pre{} HTTP/1.1\r\nHost: h\r\n\r\n", k).as_bytes());
            pre.push(s);
        }
        let mut got = 0;
        let t0 = Instant::now();
        while got < n && t0.elapsed() < Duration::from_millis(3000) {
            if let Ok(Some(rq)) = server.recv_timeout(Duration::from_millis(20)) {
                let _ = rq.respond(Response::from_string("pre"));
                got += 1;
            }
        }
        for s in pre.iter_mut() {
            s.set_read_timeout(Some(Duration::from_millis(500)));
            let mut b = [0u8; 512];
            let _ = s.read(&mut b);
        }
        drop(pre);
        std::thread::sleep(Duration::from_millis(idle));
    }
    let mut conns: Vec<crate::cv::Conn> = Vec::new();
    for c in 0..nconn {
        let mut s = if kind == "t" {
            let a = server.server_addr().to_ip().unwrap();
            crate::cv::Conn::T(std::net::TcpStream::connect(a).unwrap())
        } else {
            crate::cv::Conn::U(std::os::unix::net::UnixStream::connect(&path).unwrap())
        };
        let mut burst = Vec::new();
        for k in 0..per {
            burst.extend_from_slice(format!("GET /c{}r{} HTTP/1.1\r\nHost: h\r\n\r\n", c, k).as_bytes());
        }
        let _ = s.write_all(&burst);
        conns.push(s);
    }
    // let the burst be parsed and queued
    std::thread::sleep(Duration::from_millis(60));
    let log: Arc<Mutex<Vec<String>>> = Arc::new(Mutex::new(Vec::new()));
    let mut hs = Vec::new();
    for r in recvs {
        let s = server.clone();
        let lg = log.clone();
        hs.push(std::thread::spawn(move || {
            let (kind, k): (&str, usize) = if let Some(x) = r.strip_prefix("it") {
                ("it", x.parse().unwrap())
            } else if let Some(x) = r.strip_prefix("recv") {
                ("recv", x.parse().unwrap())
            } else if let Some(x) = r.strip_prefix("timed") {
                ("timed", x.parse().unwrap())
            } else {
                ("try", r.strip_prefix("try").unwrap().parse().unwrap())
            };
            match kind {
                "it" => {
                    // take k requests from the iterator, then drop it
                    let mut it = s.incoming_requests();
                    for _ in 0..k {
                        if let Some(rq) = it.next() {
                            answer(rq, &lg);
                        }
                    }
                }
                "recv" => {
                    for _ in 0..k {
                        if let Ok(rq) = s.recv() {
                            answer(rq, &lg);
                        }
                    }
                }
                "timed" => {
                    for _ in 0..k {
                        if let Ok(Some(rq)) = s.recv_timeout(Duration::from_millis(300)) {
                            answer(rq, &lg);
                        }
                    }
                }
                _ => {
                    for _ in 0..k {
                        if let Ok(Some(rq)) = s.try_recv() {
                            answer(rq, &lg);
                        }
                    }
                }
            }
        }));
    }
    // the main thread takes what the others leave
    let t0 = Instant::now();
    let mut quiet = Instant::now();
    while t0.elapsed() < Duration::from_millis(4000) && quiet.elapsed() < Duration::from_millis(150) {
        if let Ok(Some(rq)) = server.recv_timeout(Duration::from_millis(10)) {
            answer(rq, &log);
            quiet = Instant::now();
        }
    }
    // release receivers that still wait (blocking recv / iterator): one unblock each
    for _ in 0..hs.len() {
        server.unblock();
    }
    for h in hs {
        let t = Instant::now();
        while !h.is_finished() && t.elapsed() < Duration::from_millis(1000) {
            server.unblock();
            std::thread::sleep(Duration::from_millis(5));
        }
        if h.is_finished() {
            let _ = h.join();
        }
    }
    // late arrivals (a receiver that was released may have taken one meanwhile)
    while let Ok(Some(rq)) = server.recv_timeout(Duration::from_millis(30)) {
        answer(rq, &log);
    }
    // what the clients got
    let mut non200 = 0;
    let mut missing = 0;
    for (c, s) in conns.iter_mut().enumerate() {
        s.set_read_timeout(Some(Duration::from_millis(300)));
        let mut got = Vec::new();
        let mut b = [0u8; 4096];
        let last = format!("/c{}r{}", c, per - 1);
        loop {
            match s.read(&mut b) {
                Ok(0) | Err(_) => break,
                Ok(n) => {
                    got.extend_from_slice(&b[..n]);
                    if got.ends_with(last.as_bytes()) {
                        break;
                    }
                }
            }
        }
        let text = String::from_utf8_lossy(&got).to_string();
        let statuses: Vec<&str> = text.match_indices("HTTP/1.1 ").map(|(i, _)| &text[i + 9..i + 12]).collect();
        non200 += statuses.iter().filter(|x| **x != "200").count();
        if statuses.len() < per {
            missing += per - statuses.len();
        }
    }
    let lg = log.lock().unwrap().clone();
    let mut sorted = lg.clone();
    sorted.sort();
    let before = sorted.len();
    sorted.dedup();
    let dup = before - sorted.len();
    drop(conns);
    drop(server);
    let _ = std::fs::remove_file(&path);
    format!("total={} dup={} non200={} missing={}", lg.len(), dup, non200, missing)
}
