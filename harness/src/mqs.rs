// `mqs` executor: the real MessagesQueue<u64> run under the controllable runtime (hook H2): every
// synchronisation operation is a scheduling point decided by a seeded schedule, timed waits end by a
// virtual clock. The trace of runtime events is translated into the labels of the Coq model
// (Conc/MsgQueue.v); the driver replays them through the extracted `step` in lock-step.
//
// case line:  mqs <seed> <thread>|<thread>|...
//   thread = r<k>:<op>,<op>..   receiver k     ops: pop | try | timed<ms>
//          | p<k>:<op>,<op>..   producer k     ops: push<v> | unblock | sleep<units of 0.1 ms>
// observation: labels=<l;l;..> res=<k:op#:result,..> q=<v|T,..> blocked=<k,..> dead=<0|1> clock=<units>
//   labels: P<v>:<w|-> U:<w|-> CP<k> CT<k> CD<k>:<units> R<k> TO<k> TK<units>
use std::sync::{Arc, Mutex};
use std::time::Duration;
use tiny_http::verif::MessagesQueue;
use tiny_http::verif_rt as rt;

#[derive(Clone)]
struct Th {
    recv: Option<usize>,
    ops: Vec<String>,
}

pub fn run_case(f: &[&str]) -> String {
    let seed: u64 = f[1].parse().unwrap();
    let threads: Vec<Th> = f[2]
        .split('|')
        .map(|t| {
            let mut it = t.splitn(2, ':');
            let name = it.next().unwrap();
            let ops = it.next().unwrap_or("").split(',').filter(|x| !x.is_empty()).map(|x| x.to_string()).collect();
            Th { recv: if name.starts_with('r') { Some(name[1..].parse().unwrap()) } else { None }, ops }
        })
        .collect();
    let results: Arc<Mutex<Vec<(usize, usize, Option<u64>)>>> = Arc::new(Mutex::new(Vec::new()));
    let snapshot: Arc<Mutex<Option<Vec<Option<u64>>>>> = Arc::new(Mutex::new(None));
    let qcell: Arc<Mutex<Option<Arc<MessagesQueue<u64>>>>> = Arc::new(Mutex::new(None));
    let tids: Arc<Mutex<Vec<usize>>> = Arc::new(Mutex::new(Vec::new()));
    let th2 = threads.clone();
    let (res2, qc2, tids2) = (results.clone(), qcell.clone(), tids.clone());
    let out = rt::run(seed, None, move || {
        let q: Arc<MessagesQueue<u64>> = MessagesQueue::with_capacity(8);
        *qc2.lock().unwrap() = Some(q.clone());
        let mut hs = Vec::new();
        for (ti, th) in th2.iter().enumerate() {
            let q = q.clone();
            let th = th.clone();
            let res = res2.clone();
            let h = rt::spawn(move || {
                for (oi, op) in th.ops.iter().enumerate() {
                    if op == "pop" {
                        rt::mark("pop");
                        let r = q.pop();
                        rt::mark("ret");
                        res.lock().unwrap().push((ti, oi, r));
                    } else if op == "try" {
                        rt::mark("try");
                        let r = q.try_pop();
                        rt::mark("ret");
                        res.lock().unwrap().push((ti, oi, r));
                    } else if let Some(ms) = op.strip_prefix("timed") {
                        rt::mark(&format!("timed{}", ms));
                        let r = q.pop_timeout(Duration::from_millis(ms.parse().unwrap()));
                        rt::mark("ret");
                        res.lock().unwrap().push((ti, oi, r));
                    } else if let Some(v) = op.strip_prefix("push") {
                        rt::mark(&format!("push{}", v));
                        q.push(v.parse().unwrap());
                    } else if op == "unblock" {
                        rt::mark("unblock");
                        q.unblock();
                    } else if let Some(u) = op.strip_prefix("sleep") {
                        rt::sleep(Duration::from_micros(100 * u.parse::<u64>().unwrap()));
                    }
                }
            });
            tids2.lock().unwrap().push(h.tid());
            hs.push(h);
        }
        for h in hs {
            h.join();
        }
    });
    if let Some(q) = qcell.lock().unwrap().as_ref() {
        *snapshot.lock().unwrap() = Some(q.verif_snapshot());
    }
    if std::env::var("MQS_DEBUG").is_ok() {
        for ev in &out.trace {
            eprintln!("{:?}", ev);
        }
    }
    // translate the trace into model labels
    let tids = tids.lock().unwrap().clone();
    let recv_of = |tid: usize| -> Option<usize> { tids.iter().position(|t| *t == tid).and_then(|i| threads[i].recv) };
    let mut labels: Vec<String> = Vec::new();
    let mut cur_op: std::collections::HashMap<usize, String> = std::collections::HashMap::new();
    let mut fresh: std::collections::HashMap<usize, bool> = std::collections::HashMap::new();
    let mut started: std::collections::HashMap<usize, (u64, String)> = std::collections::HashMap::new();
    let mut durs: Vec<(usize, u64)> = Vec::new(); // (thread, virtual duration of each completed receive call, 0.1 ms)
    let mut model_clock: u64 = 0; // in units of 0.1 ms
    let mut tick = |labels: &mut Vec<String>, clock_ns: u64| {
        let u = clock_ns / 100_000;
        if u > model_clock {
            labels.push(format!("TK{}", u - model_clock));
            model_clock = u;
        }
    };
    let mut last_clock: u64 = 0;
    for ev in &out.trace {
        match ev {
            rt::Ev::Mark { tid, text, clock_ns } => {
                last_clock = *clock_ns;
                if text == "ret" {
                    if let Some((s0, _)) = started.get(tid).cloned() {
                        durs.push((*tid, (*clock_ns - s0) / 100_000));
                    }
                } else {
                    started.insert(*tid, (*clock_ns, text.clone()));
                    cur_op.insert(*tid, text.clone());
                    fresh.insert(*tid, true);
                }
            }
            rt::Ev::Fire { tid, clock_ns } => {
                last_clock = *clock_ns;
                tick(&mut labels, *clock_ns);
                if let Some(k) = recv_of(*tid) {
                    labels.push(format!("TO{}", k));
                }
            }
            rt::Ev::Acq { tid, clock_ns, .. } => {
                last_clock = *clock_ns;
                if let Some(k) = recv_of(*tid) {
                    tick(&mut labels, last_clock);
                    let op = cur_op.get(tid).cloned().unwrap_or_default();
                    if fresh.get(tid).copied().unwrap_or(false) {
                        fresh.insert(*tid, false);
                        if op == "pop" {
                            labels.push(format!("CP{}", k));
                        } else if op == "try" {
                            labels.push(format!("CT{}", k));
                        } else if let Some(ms) = op.strip_prefix("timed") {
                            labels.push(format!("CD{}:{}", k, 10 * ms.parse::<u64>().unwrap()));
                        }
                    } else {
                        labels.push(format!("R{}", k));
                    }
                }
            }
            rt::Ev::Notify { tid, woken, clock_ns, .. } => {
                last_clock = *clock_ns;
                tick(&mut labels, last_clock);
                let op = cur_op.get(tid).cloned().unwrap_or_default();
                let w = woken.and_then(|t| recv_of(t)).map(|k| k.to_string()).unwrap_or("-".into());
                if let Some(v) = op.strip_prefix("push") {
                    labels.push(format!("P{}:{}", v, w));
                } else {
                    labels.push(format!("U:{}", w));
                }
            }
            _ => {}
        }
    }
    let _ = last_clock;
    let mut res = results.lock().unwrap().clone();
    res.sort();
    let blocked: Vec<String> = out
        .final_states
        .iter()
        .enumerate()
        .filter(|(_, s)| s.starts_with("Cv"))
        .filter_map(|(tid, _)| recv_of(tid))
        .map(|k| k.to_string())
        .collect();
    let snap = snapshot.lock().unwrap().clone().unwrap_or_default();
    // durations in completion order per receiver
    let durs_s = {
        let mut v: Vec<String> = Vec::new();
        for (tid, d) in &durs {
            if let Some(k) = recv_of(*tid) {
                v.push(format!("{}:{}", k, d));
            }
        }
        if v.is_empty() { "-".to_string() } else { v.join(",") }
    };
    format!(
        "labels={} res={} q={} blocked={} dead={} clock={} durs={}",
        if labels.is_empty() { "-".to_string() } else { labels.join(";") },
        if res.is_empty() {
            "-".to_string()
        } else {
            res.iter()
                .map(|(ti, oi, r)| format!("{}:{}:{}", threads[*ti].recv.map(|k| k.to_string()).unwrap_or("p".into()), oi, r.map(|v| format!("v{}", v)).unwrap_or("N".into())))
                .collect::<Vec<_>>()
                .join(",")
        },
        if snap.is_empty() { "-".to_string() } else { snap.iter().map(|x| x.map(|v| v.to_string()).unwrap_or("T".into())).collect::<Vec<_>>().join(",") },
        if blocked.is_empty() { "-".to_string() } else { blocked.join(",") },
        if out.deadlock.is_some() { 1 } else { 0 },
        out.clock_ns / 100_000,
        durs_s
    )
}
