// `rp` executor: builds a Response through the public API as the case line says and prints what
// Response::raw_print writes into a Vec<u8>.
//
// case line (space separated):
//   rp <ctor> <status> <headers> <body> <len> <ops> <vmaj.vmin> <req headers> <head 0|1> <upgrade> <pieces>
// output line:
//   <hex of the bytes, current Date value replaced> dl=<data_length getter> nh=<number of stored headers>
//   or `PANIC <message>` / `ERR <io error kind>`
use crate::util::*;
use std::io::Read;
use tiny_http::{HTTPVersion, Header, Response, StatusCode};

/// A reader that hands out its data in pieces of the given sizes (cyclically); piece size 0 means
/// "as much as the caller asks for".
pub struct Pieces {
    pub d: Vec<u8>,
    pub pos: usize,
    pub sizes: Vec<usize>,
    pub i: usize,
}
impl Read for Pieces {
    fn read(&mut self, buf: &mut [u8]) -> std::io::Result<usize> {
        let want = if self.sizes.is_empty() { 0 } else { self.sizes[self.i % self.sizes.len()] };
        self.i += 1;
        let want = if want == 0 { buf.len() } else { want };
        let k = want.min(buf.len()).min(self.d.len() - self.pos);
        buf[..k].copy_from_slice(&self.d[self.pos..self.pos + k]);
        self.pos += k;
        Ok(k)
    }
}

fn mk_header(n: &[u8], v: &[u8]) -> Option<Header> {
    Header::from_bytes(n.to_vec(), v.to_vec()).ok()
}

pub fn headers_of(s: &str) -> Option<Vec<Header>> {
    let mut r = Vec::new();
    for (n, v) in parse_headers(s) {
        r.push(mk_header(&n, &v)?);
    }
    Some(r)
}

pub fn pieces_of(s: &str) -> Vec<usize> {
    if s == "-" {
        Vec::new()
    } else {
        s.split(',').map(|x| x.parse().unwrap()).collect()
    }
}

pub fn run_case(f: &[&str]) -> String {
    let ctor = f[1];
    let st: u16 = f[2].parse().unwrap();
    let hs = match headers_of(f[3]) {
        Some(h) => h,
        None => return "SKIP non-ascii header".into(),
    };
    let body = unhex(f[4]);
    let len = opt_usize(f[5]);
    let ops = f[6];
    let mut ver = f[7].split('.');
    let (vmaj, vmin): (u8, u8) = (ver.next().unwrap().parse().unwrap(), ver.next().unwrap().parse().unwrap());
    let rh = match headers_of(f[8]) {
        Some(h) => h,
        None => return "SKIP non-ascii header".into(),
    };
    let head = f[9] == "1";
    let up: Option<String> = if f[10] == "~" { None } else { Some(String::from_utf8(unhex(f[10])).unwrap()) };
    let pieces = pieces_of(f.get(11).copied().unwrap_or("-"));
    // stale=<ms>: a throw-away response is printed first, then the process waits; the Date of the real
    // response must still be the current time (a cached date would be that many ms old)
    if let Some(ms) = f.iter().find_map(|x| x.strip_prefix("stale=")) {
        let mut sink = Vec::new();
        let _ = Response::from_string("warm-up").raw_print(&mut sink, HTTPVersion(1, 1), &[], false, None);
        std::thread::sleep(std::time::Duration::from_millis(ms.parse().unwrap()));
    }

    let res = std::panic::catch_unwind(std::panic::AssertUnwindSafe(|| {
        let rd = |d: Vec<u8>| Pieces { d, pos: 0, sizes: pieces.clone(), i: 0 };
        // every constructor ends in a response over `Pieces` (behind a Box, so that `boxed()` can be one of
        // the operations) so that the reader hands out scripted pieces
        let bx = |p: Pieces| -> Box<dyn Read + Send> { Box::new(p) };
        let mut r: Response<Box<dyn Read + Send>> = match ctor {
            "new" => Response::new(StatusCode(st), hs.clone(), bx(rd(body.clone())), len, None),
            // the same headers handed over through the constructor's channel argument instead of the vector
            "newch" => {
                let (tx, rx) = std::sync::mpsc::channel();
                for h in hs.iter() {
                    let _ = tx.send(h.clone());
                }
                drop(tx);
                Response::new(StatusCode(st), vec![], bx(rd(body.clone())), len, Some(rx))
            }
            // Response::empty, the header/status/threshold operations applied to it, then a CLONE of it is printed
            "emptyc" => {
                let mut r0 = Response::empty(st);
                if ops != "-" {
                    for op in ops.split(';') {
                        let (k, rest) = op.split_at(1);
                        match k {
                            "H" | "A" => {
                                let mut it = rest.splitn(2, ':');
                                let n = unhex(it.next().unwrap());
                                let v = unhex(it.next().unwrap());
                                r0 = r0.with_header(mk_header(&n, &v).unwrap());
                            }
                            "S" => r0 = r0.with_status_code(rest.parse::<u16>().unwrap()),
                            "T" => r0 = r0.with_chunked_threshold(rest.parse::<usize>().unwrap()),
                            _ => {}
                        }
                    }
                }
                let c = r0.clone();
                drop(r0);
                let dl = c.data_length();
                c.with_data(bx(rd(Vec::new())), dl)
            }
            "data" => {
                let r0 = Response::from_data(body.clone());
                let dl = r0.data_length();
                r0.with_data(bx(rd(body.clone())), dl)
            }
            "string" => {
                let r0 = Response::from_string(String::from_utf8(body.clone()).unwrap());
                let dl = r0.data_length();
                r0.with_data(bx(rd(body.clone())), dl)
            }
            "file" => {
                // Response::from_file on a real temporary file: the declared length is the file size
                let path = std::env::temp_dir().join(format!("th-harness-{}-{:?}.bin", std::process::id(), std::thread::current().id()));
                std::fs::write(&path, &body).unwrap();
                let r0 = Response::from_file(std::fs::File::open(&path).unwrap());
                let _ = std::fs::remove_file(&path);
                let dl = r0.data_length();
                r0.with_data(bx(rd(body.clone())), dl)
            }
            "empty" => {
                let r0 = Response::empty(st);
                let dl = r0.data_length();
                r0.with_data(bx(rd(Vec::new())), dl)
            }
            _ => panic!("ctor {}", ctor),
        };
        if ops != "-" && ctor != "emptyc" {
            for op in ops.split(';') {
                let (k, rest) = op.split_at(1);
                match k {
                    "H" => {
                        let mut it = rest.splitn(2, ':');
                        let n = unhex(it.next().unwrap());
                        let v = unhex(it.next().unwrap());
                        r = r.with_header(mk_header(&n, &v).unwrap());
                    }
                    // add_header through &mut (with_header is the by-value form of the same operation)
                    "A" => {
                        let mut it = rest.splitn(2, ':');
                        let n = unhex(it.next().unwrap());
                        let v = unhex(it.next().unwrap());
                        r.add_header(mk_header(&n, &v).unwrap());
                    }
                    // boxed(): the same response behind a trait object (identity in the model)
                    "B" => r = r.boxed(),
                    "S" => r = r.with_status_code(rest.parse::<u16>().unwrap()),
                    "T" => r = r.with_chunked_threshold(rest.parse::<usize>().unwrap()),
                    "D" => {
                        let mut it = rest.splitn(2, ':');
                        let d = unhex(it.next().unwrap());
                        let l = opt_usize(it.next().unwrap());
                        r = r.with_data(bx(rd(d)), l);
                    }
                    _ => panic!("op {}", op),
                }
            }
        }
        let dl = r.data_length();
        let nh = r.headers().len();
        let mut out = Vec::new();
        let e = r.raw_print(&mut out, HTTPVersion(vmaj, vmin), &rh, head, up.as_deref());
        (out, e.map_err(|e| format!("{:?}", e.kind())), dl, nh)
    }));
    match res {
        Err(p) => {
            let msg = p
                .downcast_ref::<String>()
                .cloned()
                .or_else(|| p.downcast_ref::<&str>().map(|s| s.to_string()))
                .unwrap_or_default();
            format!("PANIC {}", msg.replace('\n', " "))
        }
        Ok((_, Err(k), _, _)) => format!("ERR {}", k),
        Ok((out, Ok(()), dl, nh)) => {
            let (canon, _n) = canon_dates_in_head(&out, 2);
            format!(
                "{} dl={} nh={}",
                hex(&canon),
                dl.map(|x| x.to_string()).unwrap_or("-".into()),
                nh
            )
        }
    }
}
