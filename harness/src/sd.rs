// `sd` executor (shutdown, C20): a fresh server, clients, the application holding requests, then
// `drop(server)`; afterwards connection attempts must be refused within a bounded time, the UNIX
// socket path must be gone, and the requests the application already holds can still be answered.
// case line:  sd <u|t|n> <op>,<op>,...   (n: from_listener on a non-blocking UNIX listener; only w/d/p/x are meaningful)
//   c<k>  client k connects and sends GET /k          r   the application receives one request and holds it
//   d     drop the server                             x<k> a new client tries to connect (retries up to 1 s for a refusal)
//   a     answer every held request; the clients read  p   does the UNIX socket path still exist
//   w<ms> sleep
//   C<k>  client k connects and sends two pipelined requests, GET /k and GET /q<k> (the second one stays queued
//         while the application holds the first)
//   l     is the server's listening socket still open (as the kernel reports it in /proc/net/unix or /proc/net/tcp;
//         polled for up to 1 s)
// observation: the results of x / p / a in script order, e.g.  x9=refused p=gone a=1:200,2:200
use std::io::{Read, Write};
use std::time::{Duration, Instant};
use tiny_http::{Request, Response, Server};

pub fn run_case(f: &[&str]) -> String {
    let kind = f[1];
    let ops: Vec<&str> = f[2].split(',').collect();
    let dir = std::env::var("TH_SOCK_DIR").unwrap_or_else(|_| "/tmp".into());
    let path = std::path::PathBuf::from(format!("{}/s{}.sock", dir, std::process::id()));
    let _ = std::fs::remove_file(&path);
    let os_tids = || -> std::collections::HashSet<String> {
        std::fs::read_dir("/proc/self/task")
            .map(|d| d.filter_map(|e| e.ok()).map(|e| e.file_name().to_string_lossy().to_string()).collect())
            .unwrap_or_default()
    };
    let baseline = os_tids();
    // kind m: two listening addresses are configured (127.0.0.1 and 127.0.0.2, ports found beforehand)
    let (m1, m2) = if kind == "m" {
        let a = std::net::TcpListener::bind("127.0.0.1:0").unwrap();
        let b = std::net::TcpListener::bind("127.0.0.2:0").unwrap();
        let r = (a.local_addr().unwrap(), b.local_addr().unwrap());
        drop(a);
        drop(b);
        (Some(r.0), Some(r.1))
    } else {
        (None, None)
    };
    // kind n: a UNIX-socket server built with Server::from_listener from a NON-BLOCKING listener: accept() fails at once
    // (WouldBlock), the accept loop ends and closes the listener long before the server is dropped
    // kind 2: a TCP server bound to a specific address that is not 127.0.0.1
    let mut server: Option<Server> = Some(if kind == "t" {
        Server::http("127.0.0.1:0").unwrap()
    } else if kind == "2" {
        Server::http("127.0.0.2:0").unwrap()
    } else if kind == "m" {
        Server::http(&[m1.unwrap(), m2.unwrap()][..]).unwrap()
    } else if kind == "n" {
        let l = std::os::unix::net::UnixListener::bind(&path).unwrap();
        l.set_nonblocking(true).unwrap();
        Server::from_listener(l, None).unwrap()
    } else {
        Server::http_unix(&path).unwrap()
    });
    let addr = if kind == "t" || kind == "2" || kind == "m" { Some(server.as_ref().unwrap().server_addr().to_ip().unwrap()) } else { None };
    let connect = |timeout_ms: u64| -> Result<crate::cv::Conn, String> {
        if let Some(a) = addr {
            std::net::TcpStream::connect_timeout(&a, Duration::from_millis(timeout_ms)).map(crate::cv::Conn::T).map_err(|e| format!("{:?}", e.kind()))
        } else {
            std::os::unix::net::UnixStream::connect(&path).map(crate::cv::Conn::U).map_err(|e| format!("{:?}", e.kind()))
        }
    };
    let mut clients: Vec<(String, crate::cv::Conn)> = Vec::new();
    let mut held: Vec<Request> = Vec::new();
    let mut out: Vec<String> = Vec::new();
    for op in ops {
        if let Some(k) = op.strip_prefix('c').or_else(|| op.strip_prefix('C')) {
            match connect(1000) {
                Ok(mut c) => {
                    let _ = c.write_all(format!("GET /{} HTTP/1.1\r\nHost: h\r\n\r\n", k).as_bytes());
                    if op.starts_with('C') {
                        let _ = c.write_all(format!("GET /q{} HTTP/1.1\r\nHost: h\r\n\r\n", k).as_bytes());
                    }
                    clients.push((k.to_string(), c));
                }
                Err(e) => out.push(format!("c{}=failed:{}", k, e)),
            }
        } else if op == "r" {
            if let Some(s) = server.as_ref() {
                match s.recv_timeout(Duration::from_millis(2000)) {
                    Ok(Some(rq)) => held.push(rq),
                    _ => out.push("r=none".to_string()),
                }
            }
        } else if op == "d" {
            drop(server.take());
        } else if let Some(ms) = op.strip_prefix('w') {
            std::thread::sleep(Duration::from_millis(ms.parse().unwrap()));
        } else if let Some(k) = op.strip_prefix('x') {
            // a refusal must come within a bounded time: retry for one second
            let t0 = Instant::now();
            let mut res = "connected".to_string();
            while t0.elapsed() < Duration::from_millis(1000) {
                match connect(200) {
                    Err(_) => {
                        res = "refused".to_string();
                        break;
                    }
                    Ok(mut c) => {
                        // accepted by the kernel: is anybody serving it?
                        let _ = c.write_all(format!("GET /{} HTTP/1.1\r\nHost: h\r\n\r\n", k).as_bytes());
                        c.set_read_timeout(Some(Duration::from_millis(50)));
                        let mut b = [0u8; 64];
                        match c.read(&mut b) {
                            Ok(n) if n > 0 => {
                                res = "served".to_string();
                                break;
                            }
                            _ => {}
                        }
                        std::thread::sleep(Duration::from_millis(5));
                    }
                }
            }
            out.push(format!("x{}={}", k, res));
        } else if op == "k" {
            // every client closes its connection
            clients.clear();
        } else if op == "n" {
            // threads started since the server was created that are still alive: while the server lives and nothing is
            // going on, at most the accept thread and the pool's four workers (polled 2 s); none once it has been dropped
            // (polled 6.5 s: one idle period)
            let bound = if server.is_some() { 5 } else { 0 };
            // (after the drop the workers leave when their current idle wait of up to 5 s runs out)
            let patience = if server.is_some() { 2000 } else { 6500 };
            let t0 = Instant::now();
            let mut cnt;
            loop {
                cnt = os_tids().iter().filter(|t| !baseline.contains(*t)).count();
                if cnt <= bound || t0.elapsed() > Duration::from_millis(patience) {
                    break;
                }
                std::thread::sleep(Duration::from_millis(20));
            }
            out.push(format!("thr={}", if cnt <= bound { "ok".to_string() } else { format!("{}>{}", cnt, bound) }));
        } else if let Some(k) = op.strip_prefix('y') {
            // kind m: a connection attempt to the SECOND configured address (retried for 1 s for a refusal)
            let t0 = Instant::now();
            let mut res = "connected".to_string();
            while t0.elapsed() < Duration::from_millis(1000) {
                match std::net::TcpStream::connect_timeout(&m2.unwrap(), Duration::from_millis(200)) {
                    Err(_) => {
                        res = "refused".to_string();
                        break;
                    }
                    Ok(c) => {
                        drop(c);
                        std::thread::sleep(Duration::from_millis(300));
                    }
                }
            }
            out.push(format!("y{}={}", k, res));
        } else if op == "l" {
            let t0 = Instant::now();
            let mut open = true;
            while open && t0.elapsed() < Duration::from_millis(1000) {
                open = listener_open(kind, &path, addr.map(|a| a.port()));
                if open {
                    std::thread::sleep(Duration::from_millis(10));
                }
            }
            out.push(format!("l={}", if open { "listening" } else { "closed" }));
        } else if op == "p" {
            out.push(format!("p={}", if kind == "t" || kind == "2" || kind == "m" { "na" } else if path.exists() { "there" } else { "gone" }));
        } else if op == "a" {
            let mut urls = Vec::new();
            for rq in held.drain(..) {
                let u = rq.url().trim_start_matches('/').to_string();
                let r = rq.respond(Response::from_string(format!("answer-{}", u)));
                urls.push((u, r.is_ok()));
            }
            let mut res = Vec::new();
            for (u, ok) in urls {
                let mut st = "none".to_string();
                for (k, c) in clients.iter_mut() {
                    if *k == u {
                        c.set_read_timeout(Some(Duration::from_millis(1500)));
                        let mut got = Vec::new();
                        let mut b = [0u8; 1024];
                        let want = format!("answer-{}", u);
                        while !got.ends_with(want.as_bytes()) {
                            match c.read(&mut b) {
                                Ok(0) | Err(_) => break,
                                Ok(n) => got.extend_from_slice(&b[..n]),
                            }
                        }
                        if got.starts_with(b"HTTP/1.1 200") && got.ends_with(want.as_bytes()) {
                            st = "200".to_string();
                        } else if !got.is_empty() {
                            st = "garbled".to_string();
                        }
                    }
                }
                res.push(format!("{}:{}{}", u, st, if ok { "" } else { "!err" }));
            }
            out.push(format!("a={}", if res.is_empty() { "-".to_string() } else { res.join(",") }));
        }
    }
    drop(held);
    drop(clients);
    drop(server);
    let _ = std::fs::remove_file(&path);
    if out.is_empty() {
        "-".to_string()
    } else {
        out.join(" ")
    }
}

/// Does the kernel still list a listening socket bound to the server's address?
fn listener_open(kind: &str, path: &std::path::Path, port: Option<u16>) -> bool {
    if kind == "t" || kind == "2" || kind == "m" {
        let want = format!("0{}00007F:{:04X}", if kind == "2" { 2 } else { 1 }, port.unwrap_or(0));
        let t = std::fs::read_to_string("/proc/net/tcp").unwrap_or_default();
        t.lines().skip(1).any(|l| {
            let f: Vec<&str> = l.split_whitespace().collect();
            f.len() > 3 && f[1] == want && f[3] == "0A"
        })
    } else {
        let want = path.to_string_lossy().to_string();
        let t = std::fs::read_to_string("/proc/net/unix").unwrap_or_default();
        t.lines().skip(1).any(|l| {
            let f: Vec<&str> = l.split_whitespace().collect();
            // Num RefCount Protocol Flags Type St Inode Path ; __SO_ACCEPTCON = 0x10000 marks a listening socket
            f.len() > 7 && f[7] == want && u32::from_str_radix(f[3], 16).map(|x| x & 0x10000 != 0).unwrap_or(false)
        })
    }
}
