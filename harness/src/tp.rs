// `tp` executor: drives the real TaskPool (through the cfg(tiny_http_verif) window) with tasks that
// announce that they have started and then do not finish until released — the way a connection's
// task does not finish while the connection stays open.
//
// case line:   tp <op>,<op>,...
//   d<k>   dispatch k tasks back to back          z<ms>  sleep
//   rel    let every running task finish          o      observe (after waiting until nothing changes)
//   idle<ms>  sleep (used for the idle-retirement scenario), then observe threads
// observation: one `[s=<started so far> t=<queued> w=<idle counter> a=<thread counter> th=<os threads above baseline> dup=<0|1>]` per o
use std::sync::{Arc, Condvar, Mutex};
use std::time::{Duration, Instant};
use tiny_http::verif::TaskPool;

struct Shared {
    started: Mutex<Vec<usize>>,
    gen: Mutex<u64>,
    cv: Condvar,
}

fn os_threads() -> usize {
    std::fs::read_dir("/proc/self/task").map(|d| d.count()).unwrap_or(0)
}

pub fn run_case(f: &[&str]) -> String {
    let ops: Vec<&str> = f[1].split(',').collect();
    let baseline = os_threads();
    let pool = TaskPool::new();
    let sh = Arc::new(Shared { started: Mutex::new(Vec::new()), gen: Mutex::new(0), cv: Condvar::new() });
    let mut next_id = 0usize;
    let mut out = String::new();
    let observe = |sh: &Arc<Shared>, pool: &TaskPool| -> String {
        // wait until nothing changes for 100 ms (at most 3 s)
        let t0 = Instant::now();
        let mut last = (sh.started.lock().unwrap().len(), pool.verif_counters());
        let mut last_change = Instant::now();
        loop {
            std::thread::sleep(Duration::from_millis(2));
            let cur = (sh.started.lock().unwrap().len(), pool.verif_counters());
            if cur != last {
                last = cur;
                last_change = Instant::now();
            }
            if last_change.elapsed() > Duration::from_millis(100) || t0.elapsed() > Duration::from_secs(3) {
                break;
            }
        }
        let st = sh.started.lock().unwrap().clone();
        let mut sorted = st.clone();
        sorted.sort();
        sorted.dedup();
        let (t, w, a) = pool.verif_counters();
        format!("[s={} t={} w={} a={} th={} dup={}]", st.len(), t, w, a, os_threads() as isize - baseline as isize, if sorted.len() != st.len() { 1 } else { 0 })
    };
    for op in ops {
        if let Some(k) = op.strip_prefix('d') {
            let k: usize = k.parse().unwrap();
            for _ in 0..k {
                let id = next_id;
                next_id += 1;
                let s2 = sh.clone();
                pool.spawn(Box::new(move || {
                    let my_gen = *s2.gen.lock().unwrap();
                    s2.started.lock().unwrap().push(id);
                    let mut g = s2.gen.lock().unwrap();
                    while *g <= my_gen {
                        g = s2.cv.wait(g).unwrap();
                    }
                }));
            }
        } else if let Some(ms) = op.strip_prefix("idle") {
            std::thread::sleep(Duration::from_millis(ms.parse().unwrap()));
        } else if let Some(ms) = op.strip_prefix('z') {
            std::thread::sleep(Duration::from_millis(ms.parse().unwrap()));
        } else if op == "rel" {
            *sh.gen.lock().unwrap() += 1;
            sh.cv.notify_all();
        } else if op == "o" {
            out.push_str(&observe(&sh, &pool));
        }
    }
    // let everything finish; dropping the pool makes idle workers retire
    *sh.gen.lock().unwrap() += 1000;
    sh.cv.notify_all();
    drop(pool);
    if out.is_empty() {
        out.push('-');
    }
    out
}
