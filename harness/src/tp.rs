// `tp` executor: drives the real TaskPool (through the cfg(tiny_http_verif) window) with tasks that
// announce that they have started and then do not finish until released — the way a connection's
// task does not finish while the connection stays open.
//
// case line:   tp <op>,<op>,...
//   d<k>   dispatch k tasks back to back          z<ms>  sleep
//   rel    let every running task finish          o      observe (after waiting until nothing changes)
//   idle<ms>  sleep (used for the idle-retirement scenario), then observe threads
// observation: one `[s=<started so far> t=<queued> w=<idle counter> a=<thread counter> th=<os threads above baseline> dup=<0|1>]` per o
use std::sync::{Arc, Condvar, Mutex};
use std::time::{Duration, Instant};
use tiny_http::verif::TaskPool;

struct Shared {
    started: Mutex<Vec<usize>>,
    gen: Mutex<u64>,
    cv: Condvar,
}

fn os_tids() -> std::collections::HashSet<String> {
    std::fs::read_dir("/proc/self/task")
        .map(|d| d.filter_map(|e| e.ok()).map(|e| e.file_name().to_string_lossy().to_string()).collect())
        .unwrap_or_default()
}

pub fn run_case(f: &[&str]) -> String {
    let ops: Vec<&str> = f[1].split(',').collect();
    // threads of this process that exist before the pool does (they may exit while the case runs)
    let baseline = os_tids();
    let new_threads = |b: &std::collections::HashSet<String>| os_tids().iter().filter(|t| !b.contains(*t)).count();
    let pool = TaskPool::new();
    let sh = Arc::new(Shared { started: Mutex::new(Vec::new()), gen: Mutex::new(0), cv: Condvar::new() });
    let mut next_id = 0usize;
    let mut out = String::new();
    let observe = |sh: &Arc<Shared>, pool: &TaskPool, baseline: &std::collections::HashSet<String>| -> String {
        // wait until nothing changes for 100 ms (at most 3 s)
        let t0 = Instant::now();
        let mut last = (sh.started.lock().unwrap().len(), pool.verif_counters());
        let mut last_change = Instant::now();
        loop {
            std::thread::sleep(Duration::from_millis(2));
            let cur = (sh.started.lock().unwrap().len(), pool.verif_counters());
            if cur != last {
                last = cur;
                last_change = Instant::now();
            }
            if last_change.elapsed() > Duration::from_millis(100) || t0.elapsed() > Duration::from_secs(3) {
                break;
            }
        }
        let st = sh.started.lock().unwrap().clone();
        let mut sorted = st.clone();
        sorted.sort();
        sorted.dedup();
        let (t, w, a) = pool.verif_counters();
        format!("[s={} t={} w={} a={} th={} dup={}]", st.len(), t, w, a, os_tids().iter().filter(|t| !baseline.contains(*t)).count(), if sorted.len() != st.len() { 1 } else { 0 })
    };
    for op in ops {
        if let Some(k) = op.strip_prefix('d') {
            let k: usize = k.parse().unwrap();
            for _ in 0..k {
                let id = next_id;
                next_id += 1;
                let s2 = sh.clone();
                pool.spawn(Box::new(move || {
                    let my_gen = *s2.gen.lock().unwrap();
                    s2.started.lock().unwrap().push(id);
                    let mut g = s2.gen.lock().unwrap();
                    while *g <= my_gen {
                        g = s2.cv.wait(g).unwrap();
                    }
                }));
            }
        } else if let Some(ms) = op.strip_prefix("idle") {
            std::thread::sleep(Duration::from_millis(ms.parse().unwrap()));
        } else if let Some(ms) = op.strip_prefix('z') {
            std::thread::sleep(Duration::from_millis(ms.parse().unwrap()));
        } else if op == "rel" {
            *sh.gen.lock().unwrap() += 1;
            sh.cv.notify_all();
        } else if op == "o" {
            out.push_str(&observe(&sh, &pool, &baseline));
        }
    }
    // let everything finish; dropping the pool makes idle workers retire
    *sh.gen.lock().unwrap() += 1000;
    sh.cv.notify_all();
    drop(pool);
    // the workers retire now: wait for them, so that the next case starts from a clean thread count
    let t0 = Instant::now();
    while new_threads(&baseline) > 0 && t0.elapsed() < Duration::from_millis(3000) {
        std::thread::sleep(Duration::from_millis(2));
    }
    if out.is_empty() {
        out.push('-');
    }
    out
}
