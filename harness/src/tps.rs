// `tps` executor: the real TaskPool under the controllable runtime (hook H2). Tasks announce their
// start and then wait (on controlled primitives) until released. The runtime's trace is translated
// into the labels of Conc/TaskPool.v and replayed in lock-step by the driver (`tpr`).
// case line:  tps <seed> <op>,<op>,...
//   d<k> dispatch k tasks   q wait until no other thread can run   rel release the running tasks
//   s<ms> sleep (virtual)    o observe the counters (at quiescence)  drop drop the pool
// observation: labels=<..> started=<ids in start order> dead=<0|1> clock=<ms>
//   labels: D<task>:<w|-> S<w> L<w> R<w> TD<w> TO<w> X<w> PD TK<ms> OBS<todo>/<waiting>/<active>
use std::sync::{Arc, Mutex as SMutex};
use std::time::Duration;
use tiny_http::verif::TaskPool;
use tiny_http::verif_rt as rt;

struct Gate {
    gen: rt::Mutex<u64>,
    cv: rt::Condvar,
}

pub fn run_case(f: &[&str]) -> String {
    let seed: u64 = f[1].parse().unwrap();
    let ops: Vec<String> = f[2].split(',').map(|x| x.to_string()).collect();
    let started: Arc<SMutex<Vec<usize>>> = Arc::new(SMutex::new(Vec::new()));
    let st2 = started.clone();
    let out = rt::run(seed, None, move || {
        let gate = Arc::new(Gate { gen: rt::Mutex::new(0), cv: rt::Condvar::new() });
        rt::mark("poolnew");
        let mut pool = Some(TaskPool::new());
        rt::mark("poolready");
        let mut next = 0usize;
        for op in &ops {
            if op == "drop" {
                rt::quiesce();
                rt::mark("pooldrop");
                rt::without_preemption(|| drop(pool.take()));
                rt::mark("pooldropped");
            } else if let Some(k) = op.strip_prefix('d') {
                let k: usize = k.parse().unwrap();
                for _ in 0..k {
                    let id = next;
                    next += 1;
                    let g2 = gate.clone();
                    let s3 = st2.clone();
                    rt::mark(&format!("dispatch{}", id));
                    if let Some(p) = pool.as_ref() {
                        p.spawn(Box::new(move || {
                            s3.lock().unwrap().push(id);
                            rt::mark(&format!("taskstart{}", id));
                            let my = *g2.gen.lock().unwrap();
                            let mut g = g2.gen.lock().unwrap();
                            while *g <= my {
                                g = g2.cv.wait(g).unwrap();
                            }
                            drop(g);
                            rt::mark(&format!("taskend{}", id));
                        }));
                    }
                    rt::mark("dispatched");
                }
            } else if op == "q" {
                rt::quiesce();
            } else if op == "rel" {
                rt::mark("rel");
                *gate.gen.lock().unwrap() += 1;
                gate.cv.notify_all();
                rt::mark("reldone");
            } else if let Some(ms) = op.strip_prefix('s') {
                rt::sleep(Duration::from_millis(ms.parse().unwrap()));
            } else if op == "o" {
                rt::quiesce();
                if let Some(p) = pool.as_ref() {
                    let (t, w, a) = p.verif_counters();
                    rt::mark(&format!("obs{}/{}/{}", t, w, a));
                }
            }
        }
        // let everything finish
        rt::mark("rel");
        *gate.gen.lock().unwrap() += 1000;
        gate.cv.notify_all();
        rt::mark("reldone");
        rt::quiesce();
        if pool.is_some() {
            rt::mark("pooldrop");
            rt::without_preemption(|| drop(pool.take()));
            rt::mark("pooldropped");
        }
    });
    if std::env::var("TPS_DEBUG").is_ok() {
        for ev in &out.trace {
            eprintln!("{:?}", ev);
        }
        eprintln!("deadlock: {:?} final: {:?}", out.deadlock, out.final_states);
    }
    // ---- translate ----
    let mut labels: Vec<String> = Vec::new();
    let mut workers: Vec<usize> = Vec::new(); // tid of worker index w
    let widx = |workers: &Vec<usize>, tid: usize| workers.iter().position(|t| *t == tid);
    let mut clock_ms: u64 = 0;
    let mut phase = String::new(); // main thread's current marker
    let mut cur_task: Option<usize> = None;
    let mut in_wait: std::collections::HashSet<usize> = std::collections::HashSet::new();
    let mut running: std::collections::HashSet<usize> = std::collections::HashSet::new(); // workers inside a task
    let mut in_task_code: std::collections::HashSet<usize> = std::collections::HashSet::new(); // between taskstart and taskend
    let mut active_id: Option<usize> = None;
    let mut gate_phase = false;
    let mut pending: std::collections::HashMap<usize, String> = std::collections::HashMap::new();
    let tick = |labels: &mut Vec<String>, clock_ms: &mut u64, ns: u64| {
        let u = ns / 1_000_000;
        if u > *clock_ms {
            labels.push(format!("TK{}", u - *clock_ms));
            *clock_ms = u;
        }
    };
    for ev in &out.trace {
        match ev {
            rt::Ev::Mark { tid, text, clock_ns } => {
                if *tid == 0 {
                    if let Some(id) = text.strip_prefix("dispatch") {
                        if let Ok(i) = id.parse::<usize>() {
                            cur_task = Some(i);
                        }
                    }
                    if let Some(o) = text.strip_prefix("obs") {
                        tick(&mut labels, &mut clock_ms, *clock_ns);
                        labels.push(format!("OBS{}", o));
                    }
                    gate_phase = text == "rel";
                    phase = text.clone();
                } else if text.starts_with("taskstart") {
                    if let Some(l) = pending.remove(tid) {
                        tick(&mut labels, &mut clock_ms, *clock_ns);
                        labels.push(l);
                    }
                    in_task_code.insert(*tid);
                } else if text.starts_with("taskend") {
                    in_task_code.remove(tid);
                }
            }
            rt::Ev::Spawned { tid, child, clock_ns } => {
                if *tid == 0 {
                    workers.push(*child);
                    if phase.starts_with("dispatch") {
                        tick(&mut labels, &mut clock_ms, *clock_ns);
                        labels.push(format!("D{}:-", cur_task.unwrap_or(0)));
                    }
                }
            }
            rt::Ev::Atomic { tid, id, op, clock_ns, .. } => {
                if active_id.is_none() {
                    active_id = Some(*id); // the first counter touched is the thread counter (Registration of a worker)
                }
                if Some(*id) == active_id {
                    if let Some(w) = widx(&workers, *tid) {
                        tick(&mut labels, &mut clock_ms, *clock_ns);
                        if *op == "add" {
                            labels.push(format!("S{}", w));
                            // a worker created with a task runs it at once
                        } else if *op == "sub" {
                            if let Some(l) = pending.remove(tid) {
                                labels.push(l);
                            }
                            labels.push(format!("X{}", w));
                        }
                    } else if *tid == 0 && *op == "store" {
                        tick(&mut labels, &mut clock_ms, *clock_ns);
                        labels.push("PD".to_string());
                    }
                }
            }
            rt::Ev::Acq { tid, mx: _, clock_ns } => {
                if in_task_code.contains(tid) || gate_phase && *tid == 0 {
                    continue; // the gate's mutex, not the pool's
                }
                if let Some(w) = widx(&workers, *tid) {
                    tick(&mut labels, &mut clock_ms, *clock_ns);
                    // the label of the critical section is emitted where the section ends (the wait, the start
                    // of the popped task, or the exit): the thread counter it reads may change until then
                    if in_wait.remove(tid) {
                        pending.insert(*tid, format!("R{}", w));
                    } else {
                        if running.remove(&w) {
                            labels.push(format!("TD{}", w));
                        }
                        pending.insert(*tid, format!("L{}", w));
                    }
                }
            }
            rt::Ev::Wait { tid, .. } => {
                if in_task_code.contains(tid) {
                    continue;
                }
                if widx(&workers, *tid).is_some() {
                    if let Some(l) = pending.remove(tid) {
                        labels.push(l);
                    }
                    in_wait.insert(*tid);
                }
            }
            rt::Ev::Fire { tid, clock_ns } => {
                if let Some(w) = widx(&workers, *tid) {
                    tick(&mut labels, &mut clock_ms, *clock_ns);
                    labels.push(format!("TO{}", w));
                }
            }
            rt::Ev::Notify { tid, woken, clock_ns, .. } => {
                if *tid == 0 && phase.starts_with("dispatch") {
                    tick(&mut labels, &mut clock_ms, *clock_ns);
                    let w = woken.and_then(|t| widx(&workers, t)).map(|k| k.to_string()).unwrap_or("-".into());
                    labels.push(format!("D{}:{}", cur_task.unwrap_or(0), w));
                }
            }
            _ => {}
        }
        // a worker that has just popped or been given a task is "running" from the model's point of view:
        // recorded when its task announces itself
        if let rt::Ev::Mark { tid, text, .. } = ev {
            if text.starts_with("taskstart") {
                if let Some(w) = widx(&workers, *tid) {
                    running.insert(w);
                }
            }
        }
    }
    let st = started.lock().unwrap().clone();
    format!(
        "labels={} started={} dead={} clock={}",
        if labels.is_empty() { "-".to_string() } else { labels.join(";") },
        if st.is_empty() { "-".to_string() } else { st.iter().map(|x| x.to_string()).collect::<Vec<_>>().join(",") },
        if out.deadlock.is_some() { 1 } else { 0 },
        out.clock_ns / 1_000_000
    )
}
