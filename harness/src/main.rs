// th-harness: executes case lines against the real tiny_http built from /repo's working tree.
// Reads case lines on stdin (or from the file given as 2nd argument), writes one observation line
// per case on stdout. The first field of a case line selects the executor.
mod rp;
mod util;

use std::io::{BufRead, Write};

fn main() {
    // silence the default panic message: panics are observations here
    std::panic::set_hook(Box::new(|_| {}));
    let stdin = std::io::stdin();
    let stdout = std::io::stdout();
    let mut out = std::io::BufWriter::new(stdout.lock());
    for line in stdin.lock().lines() {
        let line = line.unwrap();
        let f: Vec<&str> = line.split(' ').collect();
        if f.is_empty() || f[0].is_empty() || f[0].starts_with('#') {
            writeln!(out, "#").unwrap();
            continue;
        }
        let obs = match f[0] {
            "rp" => rp::run_case(&f),
            other => format!("UNKNOWN-EXECUTOR {}", other),
        };
        writeln!(out, "{}", obs).unwrap();
    }
}
