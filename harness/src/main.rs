// th-harness: executes case lines against the real tiny_http built from /repo's working tree.
// Reads case lines on stdin (or from the file given as 2nd argument), writes one observation line
// per case on stdout. The first field of a case line selects the executor.
mod cv;
mod rp;
mod util;

use std::io::{BufRead, Write};

fn main() {
    // silence the default panic message: panics are observations here
    std::panic::set_hook(Box::new(|_| {}));
    raise_fd_limit();
    let mut servers = cv::Servers::new();
    let stdin = std::io::stdin();
    let stdout = std::io::stdout();
    let mut out = std::io::BufWriter::new(stdout.lock());
    for line in stdin.lock().lines() {
        let line = line.unwrap();
        let f: Vec<&str> = line.split(' ').collect();
        if f.is_empty() || f[0].is_empty() || f[0].starts_with('#') {
            writeln!(out, "#").unwrap();
            continue;
        }
        let obs = match f[0] {
            "rp" => rp::run_case(&f),
            "cv" => cv::run_case(&mut servers, &f),
            other => format!("UNKNOWN-EXECUTOR {}", other),
        };
        writeln!(out, "{}", obs).unwrap();
    }
}

fn raise_fd_limit() {
    // EMFILE kills the accept loop of tiny-http for good (DESIGN 7): never get near the limit
    unsafe {
        let mut r = libc::rlimit { rlim_cur: 0, rlim_max: 0 };
        if libc::getrlimit(libc::RLIMIT_NOFILE, &mut r) == 0 {
            r.rlim_cur = r.rlim_max;
            libc::setrlimit(libc::RLIMIT_NOFILE, &r);
        }
    }
}
