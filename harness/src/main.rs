// th-harness: executes case lines against the real tiny_http built from /repo's working tree.
// Reads case lines on stdin (or from the file given as 2nd argument), writes one observation line
// per case on stdout. The first field of a case line selects the executor.
mod cv;
mod bs;
mod mq;
mod mqs;
mod pl;
mod ra;
mod rv;
mod sd;
mod tp;
mod tps;
mod sws;
mod su;
mod srs;
mod rp;
mod util;

use std::io::{BufRead, Write};

// ---- process-wide observers (C14): largest single allocation request, library panics ----
pub struct Counting;
pub static MAX_ALLOC: std::sync::atomic::AtomicUsize = std::sync::atomic::AtomicUsize::new(0);
pub static LIB_PANICS: std::sync::atomic::AtomicUsize = std::sync::atomic::AtomicUsize::new(0);
pub static LAST_PANIC: std::sync::Mutex<String> = std::sync::Mutex::new(String::new());
unsafe impl std::alloc::GlobalAlloc for Counting {
    unsafe fn alloc(&self, l: std::alloc::Layout) -> *mut u8 {
        MAX_ALLOC.fetch_max(l.size(), std::sync::atomic::Ordering::Relaxed);
        std::alloc::System.alloc(l)
    }
    unsafe fn alloc_zeroed(&self, l: std::alloc::Layout) -> *mut u8 {
        MAX_ALLOC.fetch_max(l.size(), std::sync::atomic::Ordering::Relaxed);
        if l.size() > (1usize << 34) {
            // an allocation request of more than 16 GiB on behalf of a client: refuse it the way an
            // exhausted machine would (the standard library then aborts the process)
            return std::ptr::null_mut();
        }
        std::alloc::System.alloc_zeroed(l)
    }
    unsafe fn dealloc(&self, p: *mut u8, l: std::alloc::Layout) {
        std::alloc::System.dealloc(p, l)
    }
    unsafe fn realloc(&self, p: *mut u8, l: std::alloc::Layout, n: usize) -> *mut u8 {
        MAX_ALLOC.fetch_max(n, std::sync::atomic::Ordering::Relaxed);
        std::alloc::System.realloc(p, l, n)
    }
}
#[global_allocator]
static GLOBAL: Counting = Counting;

fn main() {
    // silence the default panic message: panics are observations here. A panic whose message is
    // not the handler's own deliberate one counts as a panic inside the library.
    std::panic::set_hook(Box::new(|info| {
        let msg = info.to_string();
        if !msg.contains("handler panics while holding the request") {
            LIB_PANICS.fetch_add(1, std::sync::atomic::Ordering::SeqCst);
            if let Ok(mut g) = LAST_PANIC.lock() {
                *g = msg.replace('\n', " ").replace(' ', "_");
            }
        }
    }));
    raise_fd_limit();
    let mut servers = cv::Servers::new();
    let stdin = std::io::stdin();
    // watchdog: a case in which a library call never returns (a reader that spins, a respond that
    // never comes back) must not take the whole check with it: after CASE_LIMIT the case is reported
    // as HANG-IN-CASE and the process exits; the driver re-runs the cases behind it
    let case_no = std::sync::Arc::new(std::sync::atomic::AtomicUsize::new(0));
    let case_start = std::sync::Arc::new(std::sync::Mutex::new(std::time::Instant::now()));
    {
        let (cn, cs) = (case_no.clone(), case_start.clone());
        std::thread::spawn(move || loop {
            std::thread::sleep(std::time::Duration::from_millis(200));
            let n = cn.load(std::sync::atomic::Ordering::SeqCst);
            if n > 0 && cs.lock().unwrap().elapsed() > std::time::Duration::from_secs(40) && cn.load(std::sync::atomic::Ordering::SeqCst) == n {
                println!("HANG-IN-CASE a call into the library did not return within 40 s");
                let _ = std::io::stdout().flush();
                std::process::exit(3);
            }
        });
    }
    for line in stdin.lock().lines() {
        let line = line.unwrap();
        let f: Vec<&str> = line.split(' ').collect();
        *case_start.lock().unwrap() = std::time::Instant::now();
        util::CASE_START_SECS.store(util::now_secs(), std::sync::atomic::Ordering::SeqCst);
        case_no.fetch_add(1, std::sync::atomic::Ordering::SeqCst);
        if f.is_empty() || f[0].is_empty() || f[0].starts_with('#') {
            println!("#");
            continue;
        }
        let obs = match f[0] {
            "rp" => rp::run_case(&f),
            "cv" => cv::run_case(&mut servers, &f),
            "mq" => mq::run_case(&f),
            "mqs" => mqs::run_case(&f),
            "pl" => pl::run_case(&mut servers, &f),
            "ra" => ra::run_case(&mut servers, &f),
            "tp" => tp::run_case(&f),
            "tps" => tps::run_case(&f),
            "sws" => sws::run_case(&f),
            "su" => su::run_case(&f),
            "srs" => srs::run_case(&f),
            "bs" => bs::run_case(&f),
            "sd" => sd::run_case(&f),
            "rv" => rv::run_case(&f),
            other => format!("UNKNOWN-EXECUTOR {}", other),
        };
        case_no.store(0, std::sync::atomic::Ordering::SeqCst);
        println!("{}", obs);
    }
    let _ = std::io::stdout().flush();
}

fn raise_fd_limit() {
    // EMFILE kills the accept loop of tiny-http for good (DESIGN 7): never get near the limit
    unsafe {
        let mut r = libc::rlimit { rlim_cur: 0, rlim_max: 0 };
        if libc::getrlimit(libc::RLIMIT_NOFILE, &mut r) == 0 {
            r.rlim_cur = r.rlim_max;
            libc::setrlimit(libc::RLIMIT_NOFILE, &r);
        }
    }
}
