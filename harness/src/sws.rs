// `sws` executor: the real SequentialWriterBuilder / SequentialWriter chain of src/util/sequential.rs run
// under the controllable runtime (hook H2: the mpsc channels and the shared writer's mutex are the
// facade types, every send / receive / lock is a scheduling point decided by a seeded schedule). The
// runtime's trace is translated into the labels of Conc/SeqWriter.v; the driver (`swr`) replays them in
// lock-step through the extracted `sw_step` and compares the final stream and the blocked operations.
//
// case line:  sws <seed> bd=<0|1> main=<op>,<op>,... t0=<op>,... t1=<op>,...
//   main ops:   N        take the next writer from the builder (writer indices count these)
//               S<j>     start thread j, handing it the writers its script mentions
//               w<i>:<hex> f<i> d<i>   as below, on a writer the main thread keeps for itself
//   thread ops: w<i>:<hex>  one write call    v<i>:<hex>  gathered writes (two slices)    f<i>  flush    d<i>  drop writer i
//   bd=1: the builder is dropped as soon as the main script is through (as when the connection ends while
//         requests are still unanswered); bd=0: it lives until every thread is done
// observation: labels=<l;l;..> stream=<hex> done=<name:count,..> pend=<name:op,..|-> dead=<0|1>
//   labels: N | W<i>:<hex> | F<i> | D<i>   (W/F are recorded inside the shared sink, i.e. while the writer's
//   mutex is held; D<i> is the send on writer i's on_finish channel)
use crate::util::*;
use std::cell::Cell;
use std::collections::HashMap;
use std::io::Write;
use std::sync::{Arc, Mutex as SMutex};
use tiny_http::verif::{SequentialWriter, SequentialWriterBuilder};
use tiny_http::verif_rt as rt;

thread_local! { static CUR: Cell<usize> = Cell::new(usize::MAX); }

struct Sink {
    out: Arc<SMutex<Vec<u8>>>,
}
impl Write for Sink {
    fn write(&mut self, buf: &[u8]) -> std::io::Result<usize> {
        let i = CUR.with(|c| c.get());
        rt::mark(&format!("W{}:{}", i, buf.iter().map(|b| format!("{:02x}", b)).collect::<String>()));
        self.out.lock().unwrap().extend_from_slice(buf);
        Ok(buf.len())
    }
    fn flush(&mut self) -> std::io::Result<()> {
        let i = CUR.with(|c| c.get());
        rt::mark(&format!("F{}", i));
        Ok(())
    }
}

fn widx(op: &str) -> Option<usize> {
    let c = op.chars().next()?;
    if c == 'w' || c == 'f' || c == 'd' || c == 'v' {
        op[1..].split(':').next()?.parse().ok()
    } else {
        None
    }
}

fn run_ops(name: &str, ops: &[String], mine: &mut HashMap<usize, SequentialWriter<Sink>>) {
    for op in ops {
        let i = match widx(op) {
            Some(i) => i,
            None => continue,
        };
        rt::mark(&format!("B{}:{}", name, op));
        CUR.with(|c| c.set(i));
        match op.as_bytes()[0] {
            b'w' => {
                let d = unhex(op.splitn(2, ':').nth(1).unwrap_or(""));
                if let Some(w) = mine.get_mut(&i) {
                    let _ = w.write(&d);
                }
            }
            b'v' => {
                // gathered write: two slices, repeated until everything is written
                let d = unhex(op.splitn(2, ':').nth(1).unwrap_or(""));
                if let Some(w) = mine.get_mut(&i) {
                    let a = d.len() / 2;
                    let mut done = 0usize;
                    while done < d.len() {
                        let r = if done < a {
                            w.write_vectored(&[std::io::IoSlice::new(&d[done..a]), std::io::IoSlice::new(&d[a..])])
                        } else {
                            w.write_vectored(&[std::io::IoSlice::new(&d[done..])])
                        };
                        match r {
                            Ok(0) | Err(_) => break,
                            Ok(k) => done += k,
                        }
                    }
                }
            }
            b'f' => {
                if let Some(w) = mine.get_mut(&i) {
                    let _ = w.flush();
                }
            }
            _ => {
                drop(mine.remove(&i));
            }
        }
        rt::mark(&format!("E{}", name));
    }
}

pub fn run_case(f: &[&str]) -> String {
    let seed: u64 = f[1].parse().unwrap();
    let mut bd = false;
    let mut main_ops: Vec<String> = Vec::new();
    let mut threads: Vec<Vec<String>> = Vec::new();
    for x in &f[2..] {
        if let Some(v) = x.strip_prefix("bd=") {
            bd = v == "1";
        } else if let Some(v) = x.strip_prefix("main=") {
            main_ops = v.split(',').filter(|s| !s.is_empty()).map(|s| s.to_string()).collect();
        } else if x.starts_with('t') {
            if let Some(p) = x.find('=') {
                let k: usize = x[1..p].parse().unwrap();
                while threads.len() <= k {
                    threads.push(Vec::new());
                }
                threads[k] = x[p + 1..].split(',').filter(|s| !s.is_empty()).map(|s| s.to_string()).collect();
            }
        }
    }
    let out_bytes: Arc<SMutex<Vec<u8>>> = Arc::new(SMutex::new(Vec::new()));
    let ob2 = out_bytes.clone();
    let th2 = threads.clone();
    let mo2 = main_ops.clone();
    let out = rt::run(seed, None, move || {
        let mut builder = Some(SequentialWriterBuilder::new(Sink { out: ob2 }));
        let mut pool: HashMap<usize, SequentialWriter<Sink>> = HashMap::new();
        let mut next = 0usize;
        let mut hs = Vec::new();
        for op in &mo2 {
            if op == "N" {
                if let Some(b) = builder.as_mut() {
                    let w = b.next().unwrap();
                    rt::mark("N");
                    pool.insert(next, w);
                    next += 1;
                }
            } else if let Some(j) = op.strip_prefix('S') {
                let j: usize = j.parse().unwrap();
                let ops = th2[j].clone();
                let mut mine: HashMap<usize, SequentialWriter<Sink>> = HashMap::new();
                for o in &ops {
                    if let Some(i) = widx(o) {
                        if let Some(w) = pool.remove(&i) {
                            mine.insert(i, w);
                        }
                    }
                }
                let name = format!("t{}", j);
                hs.push(rt::spawn(move || {
                    run_ops(&name, &ops, &mut mine);
                    // whatever the script did not drop is dropped in index order when the thread ends
                    let mut rest: Vec<usize> = mine.keys().copied().collect();
                    rest.sort();
                    for i in rest {
                        drop(mine.remove(&i));
                    }
                }));
            } else {
                run_ops("m", std::slice::from_ref(op), &mut pool);
            }
        }
        if bd {
            drop(builder.take());
        }
        for h in hs {
            h.join();
        }
        let mut rest: Vec<usize> = pool.keys().copied().collect();
        rest.sort();
        for i in rest {
            drop(pool.remove(&i));
        }
        drop(builder.take());
    });
    if std::env::var("SWS_DEBUG").is_ok() {
        for ev in &out.trace {
            eprintln!("{:?}", ev);
        }
    }
    let mut labels: Vec<String> = Vec::new();
    let mut done: HashMap<String, usize> = HashMap::new();
    let mut pend: HashMap<String, String> = HashMap::new();
    for ev in &out.trace {
        match ev {
            rt::Ev::Mark { text, .. } => {
                if text == "N" || text.starts_with('W') || text.starts_with('F') {
                    labels.push(text.clone());
                } else if let Some(r) = text.strip_prefix('B') {
                    let mut it = r.splitn(2, ':');
                    let name = it.next().unwrap().to_string();
                    pend.insert(name, it.next().unwrap_or("").to_string());
                } else if let Some(name) = text.strip_prefix('E') {
                    pend.remove(name);
                    *done.entry(name.to_string()).or_insert(0) += 1;
                }
            }
            rt::Ev::ChanSend { ch, .. } => labels.push(format!("D{}", ch)),
            _ => {}
        }
    }
    let mut names: Vec<String> = vec!["m".to_string()];
    for j in 0..threads.len() {
        names.push(format!("t{}", j));
    }
    let done_s: Vec<String> = names.iter().map(|n| format!("{}:{}", n, done.get(n).copied().unwrap_or(0))).collect();
    let mut pend_s: Vec<String> = names.iter().filter_map(|n| pend.get(n).map(|o| format!("{}/{}", n, o))).collect();
    pend_s.sort();
    let stream = out_bytes.lock().unwrap().clone();
    format!(
        "labels={} stream={} done={} pend={} dead={}",
        if labels.is_empty() { "-".to_string() } else { labels.join(";") },
        if stream.is_empty() { "-".to_string() } else { hex(&stream) },
        done_s.join(","),
        if pend_s.is_empty() { "-".to_string() } else { pend_s.join(",") },
        if out.deadlock.is_some() { 1 } else { 0 }
    )
}
