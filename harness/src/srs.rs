// `srs` executor: the real SequentialReaderBuilder / SequentialReader chain of src/util/sequential.rs (the connection's
// reader handed from request to request) under the controllable runtime (hook H2), like `sws` for the writers.
// The chain has the same shape as the writer chain: a reader reads (or is dropped) only when every earlier reader has
// been dropped, and passes the underlying reader on when it is dropped. The labels are those of Conc/SeqWriter.v with
// "Write i d" read as "reader i consumed the bytes d of the source"; the driver (`swr`) replays them in lock-step.
//
// case line:  srs <seed> bd=<0|1> src=<hex> main=<op>,<op>,... t0=<op>,... t1=<op>,...
//   main ops:   N  take the next reader from the builder     S<j>  start thread j with the readers its script mentions
//   thread ops (also allowed in main, on readers it keeps):   r<i>:<n>  one read call with a buffer of n bytes    d<i>  drop reader i
// observation: labels=<..> stream=<hex of what the source handed out, in order> done=.. pend=.. dead=<0|1> got=<i>:<hex>,..
//   (got = what each reader's read calls returned, as seen by the calling thread)
use crate::util::*;
use std::cell::Cell;
use std::collections::HashMap;
use std::io::Read;
use std::sync::{Arc, Mutex as SMutex};
use tiny_http::verif::{SequentialReader, SequentialReaderBuilder};
use tiny_http::verif_rt as rt;

thread_local! { static CUR: Cell<usize> = Cell::new(usize::MAX); }

struct Src {
    data: Vec<u8>,
    pos: usize,
    out: Arc<SMutex<Vec<u8>>>,
}
impl Read for Src {
    fn read(&mut self, buf: &mut [u8]) -> std::io::Result<usize> {
        let i = CUR.with(|c| c.get());
        let n = buf.len().min(self.data.len() - self.pos);
        buf[..n].copy_from_slice(&self.data[self.pos..self.pos + n]);
        let d = &self.data[self.pos..self.pos + n];
        rt::mark(&format!("W{}:{}", i, d.iter().map(|b| format!("{:02x}", b)).collect::<String>()));
        self.out.lock().unwrap().extend_from_slice(d);
        self.pos += n;
        Ok(n)
    }
}

fn widx(op: &str) -> Option<usize> {
    let c = op.chars().next()?;
    if c == 'r' || c == 'd' {
        op[1..].split(':').next()?.parse().ok()
    } else {
        None
    }
}

fn run_ops(name: &str, ops: &[String], mine: &mut HashMap<usize, SequentialReader<Src>>, got: &Arc<SMutex<Vec<(usize, Vec<u8>)>>>) {
    for op in ops {
        let i = match widx(op) {
            Some(i) => i,
            None => continue,
        };
        rt::mark(&format!("B{}:{}", name, op));
        CUR.with(|c| c.set(i));
        match op.as_bytes()[0] {
            b'r' => {
                let n: usize = op.splitn(2, ':').nth(1).unwrap_or("0").parse().unwrap_or(0);
                if let Some(r) = mine.get_mut(&i) {
                    let mut b = vec![0u8; n];
                    if let Ok(k) = r.read(&mut b) {
                        got.lock().unwrap().push((i, b[..k].to_vec()));
                    }
                }
            }
            _ => {
                drop(mine.remove(&i));
            }
        }
        rt::mark(&format!("E{}", name));
    }
}

pub fn run_case(f: &[&str]) -> String {
    let seed: u64 = f[1].parse().unwrap();
    let mut bd = false;
    let mut src: Vec<u8> = Vec::new();
    let mut main_ops: Vec<String> = Vec::new();
    let mut threads: Vec<Vec<String>> = Vec::new();
    for x in &f[2..] {
        if let Some(v) = x.strip_prefix("bd=") {
            bd = v == "1";
        } else if let Some(v) = x.strip_prefix("src=") {
            src = unhex(v);
        } else if let Some(v) = x.strip_prefix("main=") {
            main_ops = v.split(',').filter(|s| !s.is_empty()).map(|s| s.to_string()).collect();
        } else if x.starts_with('t') {
            if let Some(p) = x.find('=') {
                let k: usize = x[1..p].parse().unwrap();
                while threads.len() <= k {
                    threads.push(Vec::new());
                }
                threads[k] = x[p + 1..].split(',').filter(|s| !s.is_empty()).map(|s| s.to_string()).collect();
            }
        }
    }
    let out_bytes: Arc<SMutex<Vec<u8>>> = Arc::new(SMutex::new(Vec::new()));
    let ob2 = out_bytes.clone();
    let th2 = threads.clone();
    let got: Arc<SMutex<Vec<(usize, Vec<u8>)>>> = Arc::new(SMutex::new(Vec::new()));
    let got2 = got.clone();
    let mo2 = main_ops.clone();
    let out = rt::run(seed, None, move || {
        let mut builder = Some(SequentialReaderBuilder::new(Src { data: src, pos: 0, out: ob2 }));
        // (ManuallyDrop: when the run is aborted at a deadlock the threads are unwound; a reader that is still waiting
        // for its turn must not be dropped then, its Drop would wait again)
        let mut pool: std::mem::ManuallyDrop<HashMap<usize, SequentialReader<Src>>> = std::mem::ManuallyDrop::new(HashMap::new());
        let mut next = 0usize;
        let mut hs = Vec::new();
        for op in &mo2 {
            if op == "N" {
                if let Some(b) = builder.as_mut() {
                    let w = b.next().unwrap();
                    rt::mark("N");
                    pool.insert(next, w);
                    next += 1;
                }
            } else if let Some(j) = op.strip_prefix('S') {
                let j: usize = j.parse().unwrap();
                let ops = th2[j].clone();
                let mut mine: std::mem::ManuallyDrop<HashMap<usize, SequentialReader<Src>>> = std::mem::ManuallyDrop::new(HashMap::new());
                for o in &ops {
                    if let Some(i) = widx(o) {
                        if let Some(w) = pool.remove(&i) {
                            mine.insert(i, w);
                        }
                    }
                }
                let name = format!("t{}", j);
                let g3 = got2.clone();
                hs.push(rt::spawn(move || {
                    run_ops(&name, &ops, &mut mine, &g3);
                    // whatever the script did not drop is dropped in index order when the thread ends
                    let mut rest: Vec<usize> = mine.keys().copied().collect();
                    rest.sort();
                    for i in rest {
                        drop(mine.remove(&i));
                    }
                }));
            } else {
                run_ops("m", std::slice::from_ref(op), &mut pool, &got2);
            }
        }
        if bd {
            drop(builder.take());
        }
        for h in hs {
            h.join();
        }
        let mut rest: Vec<usize> = pool.keys().copied().collect();
        rest.sort();
        for i in rest {
            drop(pool.remove(&i));
        }
        drop(builder.take());
    });
    if std::env::var("SRS_DEBUG").is_ok() {
        for ev in &out.trace {
            eprintln!("{:?}", ev);
        }
    }
    let mut labels: Vec<String> = Vec::new();
    let mut done: HashMap<String, usize> = HashMap::new();
    let mut pend: HashMap<String, String> = HashMap::new();
    for ev in &out.trace {
        match ev {
            rt::Ev::Mark { text, .. } => {
                if text == "N" || text.starts_with('W') {
                    labels.push(text.clone());
                } else if let Some(r) = text.strip_prefix('B') {
                    let mut it = r.splitn(2, ':');
                    let name = it.next().unwrap().to_string();
                    pend.insert(name, it.next().unwrap_or("").to_string());
                } else if let Some(name) = text.strip_prefix('E') {
                    pend.remove(name);
                    *done.entry(name.to_string()).or_insert(0) += 1;
                }
            }
            rt::Ev::ChanSend { ch, .. } => labels.push(format!("D{}", ch)),
            _ => {}
        }
    }
    let mut names: Vec<String> = vec!["m".to_string()];
    for j in 0..threads.len() {
        names.push(format!("t{}", j));
    }
    let done_s: Vec<String> = names.iter().map(|n| format!("{}:{}", n, done.get(n).copied().unwrap_or(0))).collect();
    let mut pend_s: Vec<String> = names.iter().filter_map(|n| pend.get(n).map(|o| format!("{}/{}", n, o))).collect();
    pend_s.sort();
    let stream = out_bytes.lock().unwrap().clone();
    let mut per: std::collections::BTreeMap<usize, Vec<u8>> = std::collections::BTreeMap::new();
    for (i, d) in got.lock().unwrap().iter() {
        per.entry(*i).or_default().extend_from_slice(d);
    }
    let got_s: Vec<String> = per.iter().map(|(i, d)| format!("{}:{}", i, d.iter().map(|b| format!("{:02x}", b)).collect::<String>())).collect();
    format!(
        "labels={} stream={} done={} pend={} dead={} got={}",
        if labels.is_empty() { "-".to_string() } else { labels.join(";") },
        if stream.is_empty() { "-".to_string() } else { hex(&stream) },
        done_s.join(","),
        if pend_s.is_empty() { "-".to_string() } else { pend_s.join(",") },
        if out.deadlock.is_some() { 1 } else { 0 },
        if got_s.is_empty() { "-".to_string() } else { got_s.join(",") }
    )
}
