// `su` executor (C17 / C07 at the server API): the receive calls of `Server` (recv, recv_timeout, try_recv,
// incoming_requests) and `unblock`, issued one after the other from a script, with requests arriving in between.
// case line:  su <u|t> <op>,<op>,...
//   u        server.unblock()
//   q<k>     a new client connects and sends GET /k (kept open); the script then waits 120 ms for it to be queued
//   t<ms>    recv_timeout(ms)       y  try_recv()       r  recv()       i  incoming_requests().next()
//            (r and i run on a helper thread; if they have not returned after 700 ms the harness reports `hang`,
//            releases the helper with one unblock of its own and waits for it)
// observation, one item per receive call:  t<ms>:<R<k>|N|E>:<fast|full|odd>   y:<R<k>|N>[:slow]   r:<R<k>|E|hang>   i:<R<k>|E|hang>
//   fast = returned within 40 % of the timeout, full = between 90 % and 200 % (+150 ms) of it
use std::io::Write;
use std::sync::Arc;
use std::time::{Duration, Instant};
use tiny_http::{Request, Response, Server};

fn answer(rq: Request) -> String {
    let u = rq.url().trim_start_matches('/').to_string();
    let _ = rq.respond(Response::from_string("ok"));
    format!("R{}", u)
}

pub fn run_case(f: &[&str]) -> String {
    let kind = f[1];
    let dir = std::env::var("TH_SOCK_DIR").unwrap_or_else(|_| "/tmp".into());
    let path = std::path::PathBuf::from(format!("{}/su{}.sock", dir, std::process::id()));
    let _ = std::fs::remove_file(&path);
    let server = Arc::new(if kind == "t" { Server::http("127.0.0.1:0").unwrap() } else { Server::http_unix(&path).unwrap() });
    let mut conns: Vec<crate::cv::Conn> = Vec::new();
    let mut out: Vec<String> = Vec::new();
    for op in f[2].split(',') {
        if op == "u" {
            server.unblock();
        } else if let Some(k) = op.strip_prefix('q') {
            let c = if kind == "t" {
                std::net::TcpStream::connect(server.server_addr().to_ip().unwrap()).map(crate::cv::Conn::T)
            } else {
                std::os::unix::net::UnixStream::connect(&path).map(crate::cv::Conn::U)
            };
            match c {
                Ok(mut c) => {
                    let _ = c.write_all(format!("GET /{} HTTP/1.1\r\nHost: h\r\n\r\n", k).as_bytes());
                    conns.push(c);
                }
                Err(e) => out.push(format!("q{}:failed:{:?}", k, e.kind())),
            }
            std::thread::sleep(Duration::from_millis(120));
        } else if let Some(ms) = op.strip_prefix('t') {
            let ms: u64 = ms.parse().unwrap();
            let t0 = Instant::now();
            let r = server.recv_timeout(Duration::from_millis(ms));
            let el = t0.elapsed().as_micros() as u64;
            let res = match r {
                Ok(Some(rq)) => answer(rq),
                Ok(None) => "N".to_string(),
                Err(_) => "E".to_string(),
            };
            let class = if el * 10 < ms * 1000 * 4 {
                "fast"
            } else if el * 10 >= ms * 1000 * 9 && el <= 2 * ms * 1000 + 150_000 {
                "full"
            } else {
                "odd"
            };
            out.push(format!("t{}:{}:{}", ms, res, class));
        } else if op == "y" {
            let t0 = Instant::now();
            let r = server.try_recv();
            let el = t0.elapsed();
            let res = match r {
                Ok(Some(rq)) => answer(rq),
                Ok(None) => "N".to_string(),
                Err(_) => "E".to_string(),
            };
            out.push(format!("y:{}{}", res, if el > Duration::from_millis(100) { ":slow" } else { "" }));
        } else if op == "r" || op == "i" {
            let s2 = server.clone();
            let it = op == "i";
            let (tx, rx) = std::sync::mpsc::channel();
            let h = std::thread::spawn(move || {
                let r = if it {
                    match s2.incoming_requests().next() {
                        Some(rq) => answer(rq),
                        None => "E".to_string(),
                    }
                } else {
                    match s2.recv() {
                        Ok(rq) => answer(rq),
                        Err(_) => "E".to_string(),
                    }
                };
                let _ = tx.send(r);
            });
            match rx.recv_timeout(Duration::from_millis(700)) {
                Ok(r) => out.push(format!("{}:{}", op, r)),
                Err(_) => {
                    out.push(format!("{}:hang", op));
                    server.unblock();
                    let _ = rx.recv_timeout(Duration::from_millis(3000));
                }
            }
            let _ = h.join();
        }
    }
    drop(conns);
    drop(server);
    let _ = std::fs::remove_file(&path);
    if out.is_empty() { "-".to_string() } else { out.join(" ") }
}
