// `mq` executor: drives the real MessagesQueue<u64> (through the cfg(tiny_http_verif) window) with
// one OS thread per receiver and scripted operations released in order by the main thread.
//
// case line:   mq <nrecv> <grace_us> <op>,<op>,...
//   p<v>            push value v                         u      unblock
//   r<t>.pop        receiver t calls pop()               r<t>.try      try_pop()
//   r<t>.timed<ms>  receiver t calls pop_timeout(ms)
//   m               set the time mark                    w<us>  spin until mark + us
//   z<ms>           sleep
// After releasing an operation the main thread waits until it has completed or <grace_us> have
// passed (never asserting that something IS blocked); at the end it waits until nothing changes any
// more, records who is still inside a call and the queue content, then releases everybody.
// observation:  done=<c|b per op> res=<op:result:us;...> blocked=<t,..> q=<v|T,..>
//   result = v<value> | N (None)
use std::sync::atomic::{AtomicUsize, Ordering};
use std::sync::mpsc;
use std::sync::{Arc, Mutex};
use std::time::{Duration, Instant};
use tiny_http::verif::MessagesQueue;

enum Cmd {
    Pop(usize),
    Try(usize),
    Timed(usize, u64),
    Quit,
}

pub fn run_case(f: &[&str]) -> String {
    let nrecv: usize = f[1].parse().unwrap();
    let grace = Duration::from_micros(f[2].parse().unwrap());
    let ops: Vec<&str> = f[3].split(',').collect();
    let q: Arc<MessagesQueue<u64>> = MessagesQueue::with_capacity(8);
    let results: Arc<Mutex<Vec<(usize, Option<u64>, u128)>>> = Arc::new(Mutex::new(Vec::new()));
    let completed = Arc::new(AtomicUsize::new(0));
    let op_done: Arc<Vec<AtomicUsize>> = Arc::new((0..ops.len()).map(|_| AtomicUsize::new(0)).collect());
    let mut chans = Vec::new();
    let mut handles = Vec::new();
    let inside: Arc<Vec<AtomicUsize>> = Arc::new((0..nrecv).map(|_| AtomicUsize::new(0)).collect());
    for t in 0..nrecv {
        let (tx, rx) = mpsc::channel::<Cmd>();
        chans.push(tx);
        let q2 = q.clone();
        let res = results.clone();
        let comp = completed.clone();
        let ins = inside.clone();
        let opd = op_done.clone();
        handles.push(std::thread::spawn(move || {
            while let Ok(c) = rx.recv() {
                let (i, r, d) = match c {
                    Cmd::Quit => break,
                    Cmd::Pop(i) => {
                        ins[t].store(1, Ordering::SeqCst);
                        let s = Instant::now();
                        let r = q2.pop();
                        (i, r, s.elapsed().as_micros())
                    }
                    Cmd::Try(i) => {
                        ins[t].store(1, Ordering::SeqCst);
                        let s = Instant::now();
                        let r = q2.try_pop();
                        (i, r, s.elapsed().as_micros())
                    }
                    Cmd::Timed(i, ms) => {
                        ins[t].store(1, Ordering::SeqCst);
                        let s = Instant::now();
                        let r = q2.pop_timeout(Duration::from_millis(ms));
                        (i, r, s.elapsed().as_micros())
                    }
                };
                res.lock().unwrap().push((i, r, d));
                ins[t].store(0, Ordering::SeqCst);
                opd[i].store(1, Ordering::SeqCst);
                comp.fetch_add(1, Ordering::SeqCst);
            }
        }));
    }
    let mut mark = Instant::now();
    let mut done_flags: Vec<char> = Vec::new();
    let mut max_timed: u64 = 0;
    let mut ncalls = 0usize;
    let mut ncalls_inline = 0usize;
    for (i, op) in ops.iter().enumerate() {
        let mut is_call = false;
        if let Some(v) = op.strip_prefix('p') {
            q.push(v.parse().unwrap());
        } else if *op == "u" {
            q.unblock();
        } else if *op == "m" {
            mark = Instant::now();
        } else if let Some(us) = op.strip_prefix('w') {
            let d = Duration::from_micros(us.parse().unwrap());
            while mark.elapsed() < d {
                std::hint::spin_loop();
            }
        } else if let Some(ms) = op.strip_prefix('z') {
            std::thread::sleep(Duration::from_millis(ms.parse().unwrap()));
        } else if let Some(rest) = op.strip_prefix('R') {
            // a non-blocking receive performed by the releasing thread itself, right now
            let _t: usize = rest.splitn(2, '.').next().unwrap().parse().unwrap();
            let s = Instant::now();
            let r = q.try_pop();
            results.lock().unwrap().push((i, r, s.elapsed().as_micros()));
            op_done[i].store(1, Ordering::SeqCst);
            ncalls_inline += 1;
        } else if let Some(rest) = op.strip_prefix('r') {
            let mut it = rest.splitn(2, '.');
            let t: usize = it.next().unwrap().parse().unwrap();
            let what = it.next().unwrap();
            is_call = true;
            ncalls += 1;
            let c = if what == "pop" {
                Cmd::Pop(i)
            } else if what == "try" {
                Cmd::Try(i)
            } else {
                let ms: u64 = what.strip_prefix("timed").unwrap().parse().unwrap();
                max_timed = max_timed.max(ms);
                Cmd::Timed(i, ms)
            };
            chans[t].send(c).unwrap();
        }
        if is_call {
            // completed, or the grace period is over
            let s = Instant::now();
            let mut c = 'b';
            while s.elapsed() < grace {
                if op_done[i].load(Ordering::SeqCst) == 1 {
                    c = 'c';
                    break;
                }
                std::hint::spin_loop();
            }
            done_flags.push(c);
        } else {
            done_flags.push('c');
        }
    }
    // settle: every timed call has had 2T + 150 ms, and nothing has changed for 120 ms
    let settle_start = Instant::now();
    let mut last = completed.load(Ordering::SeqCst);
    let mut last_change = Instant::now();
    loop {
        std::thread::sleep(Duration::from_millis(2));
        let c = completed.load(Ordering::SeqCst);
        if c != last {
            last = c;
            last_change = Instant::now();
        }
        if c >= ncalls {
            break;
        }
        if last_change.elapsed() > Duration::from_millis(120) && settle_start.elapsed() > Duration::from_millis(2 * max_timed + 150) {
            break;
        }
    }
    let blocked: Vec<String> = (0..nrecv).filter(|t| inside[*t].load(Ordering::SeqCst) == 1).map(|t| t.to_string()).collect();
    let snap = q.verif_snapshot();
    let mut res = results.lock().unwrap().clone();
    res.sort();
    // release everybody
    for _ in 0..blocked.len() + 1 {
        q.unblock();
    }
    for c in &chans {
        let _ = c.send(Cmd::Quit);
    }
    // a receiver still blocked after the unblocks (cannot happen on a healthy queue) is left behind
    let t0 = Instant::now();
    for h in handles {
        while !h.is_finished() && t0.elapsed() < Duration::from_millis(500) {
            q.unblock();
            std::thread::sleep(Duration::from_millis(5));
        }
        if h.is_finished() {
            let _ = h.join();
        }
    }
    let _ = ncalls_inline;
    format!(
        "done={} res={} blocked={} q={}",
        done_flags.iter().collect::<String>(),
        if res.is_empty() {
            "-".to_string()
        } else {
            res.iter()
                .map(|(i, r, d)| format!("{}:{}:{}", i, r.map(|v| format!("v{}", v)).unwrap_or("N".into()), d))
                .collect::<Vec<_>>()
                .join(";")
        },
        if blocked.is_empty() { "-".to_string() } else { blocked.join(",") },
        if snap.is_empty() {
            "-".to_string()
        } else {
            snap.iter().map(|x| x.map(|v| v.to_string()).unwrap_or("T".into())).collect::<Vec<_>>().join(",")
        }
    )
}
