// Shared helpers: hex, field parsing, Date canonicalisation.
use std::time::{SystemTime, UNIX_EPOCH};

pub fn hex(b: &[u8]) -> String {
    if b.is_empty() {
        return "-".to_string();
    }
    let mut s = String::with_capacity(b.len() * 2);
    for x in b {
        s.push_str(&format!("{:02x}", x));
    }
    s
}

pub fn unhex(s: &str) -> Vec<u8> {
    if s == "-" {
        return Vec::new();
    }
    if let Some(rest) = s.strip_prefix('@') {
        // pattern body: @<n> = n bytes, byte i = 97 + (i mod 26)
        let n: usize = rest.parse().expect("pattern length");
        return (0..n).map(|i| 97 + (i % 26) as u8).collect();
    }
    let b = s.as_bytes();
    assert!(b.len() % 2 == 0, "odd hex {}", s);
    (0..b.len() / 2)
        .map(|i| u8::from_str_radix(std::str::from_utf8(&b[2 * i..2 * i + 2]).unwrap(), 16).unwrap())
        .collect()
}

/// `namehex:valuehex,namehex:valuehex` or `-`
pub fn parse_headers(s: &str) -> Vec<(Vec<u8>, Vec<u8>)> {
    if s == "-" {
        return Vec::new();
    }
    s.split(',')
        .map(|h| {
            let mut it = h.splitn(2, ':');
            let n = unhex(it.next().unwrap());
            let v = unhex(it.next().unwrap());
            (n, v)
        })
        .collect()
}

pub fn opt_usize(s: &str) -> Option<usize> {
    if s == "-" {
        None
    } else {
        Some(s.parse().expect("usize"))
    }
}

const DAYS: [&str; 7] = ["Mon", "Tue", "Wed", "Thu", "Fri", "Sat", "Sun"];
const MONTHS: [&str; 12] = [
    "Jan", "Feb", "Mar", "Apr", "May", "Jun", "Jul", "Aug", "Sep", "Oct", "Nov", "Dec",
];

/// Parses an IMF-fixdate ("Sun, 06 Nov 1994 08:49:37 GMT") into seconds since the epoch,
/// checking the day name as well. None if the shape is wrong.
pub fn parse_imf_fixdate(v: &[u8]) -> Option<i64> {
    if v.len() != 29 {
        return None;
    }
    let t = std::str::from_utf8(v).ok()?;
    let dayname = DAYS.iter().position(|d| *d == &t[0..3])?;
    if &t[3..5] != ", " || &t[7..8] != " " || &t[11..12] != " " || &t[16..17] != " " {
        return None;
    }
    if &t[19..20] != ":" || &t[22..23] != ":" || &t[25..29] != " GMT" {
        return None;
    }
    let num = |a: usize, b: usize| -> Option<i64> {
        let x = &t[a..b];
        if x.bytes().all(|c| c.is_ascii_digit()) {
            x.parse().ok()
        } else {
            None
        }
    };
    let day = num(5, 7)?;
    let month = MONTHS.iter().position(|m| *m == &t[8..11])? as i64 + 1;
    let year = num(12, 16)?;
    let (h, mi, s) = (num(17, 19)?, num(20, 22)?, num(23, 25)?);
    if day < 1 || day > 31 || h > 23 || mi > 59 || s > 60 {
        return None;
    }
    // days from civil (Howard Hinnant)
    let y = if month <= 2 { year - 1 } else { year };
    let era = if y >= 0 { y } else { y - 399 } / 400;
    let yoe = y - era * 400;
    let mp = (month + 9) % 12;
    let doy = (153 * mp + 2) / 5 + day - 1;
    let doe = yoe * 365 + yoe / 4 - yoe / 100 + doy;
    let days = era * 146097 + doe - 719468;
    // 1970-01-01 was a Thursday (index 3 in DAYS)
    if ((days % 7 + 7 + 3) % 7) as usize != dayname {
        return None;
    }
    Some(days * 86400 + h * 3600 + mi * 60 + s)
}

pub const CANON_DATE: &[u8] = b"Thu, 01 Jan 1970 00:00:00 GMT";

/// wall-clock second at which the current case line was taken up (set by main)
pub static CASE_START_SECS: std::sync::atomic::AtomicI64 = std::sync::atomic::AtomicI64::new(0);

pub fn now_secs() -> i64 {
    SystemTime::now().duration_since(UNIX_EPOCH).unwrap().as_secs() as i64
}

/// In the header block starting at `from` (a response head), replaces the value of every
/// `Date:` line that is a valid IMF-fixdate within +-`slack` s of now by CANON_DATE.
/// Returns (new bytes, number of replacements). Lines whose Date value is not a current valid
/// date are left as they are, so they show up in the comparison.
pub fn canon_dates_in_head(out: &[u8], slack: i64) -> (Vec<u8>, usize) {
    // the head is everything up to and including the first empty line
    let head_end = find(out, b"\r\n\r\n").map(|p| p + 2).unwrap_or(out.len());
    let mut res = Vec::with_capacity(out.len());
    let mut n = 0;
    let mut i = 0;
    let now = now_secs();
    while i < head_end {
        let line_end = find(&out[i..head_end], b"\r\n").map(|p| i + p).unwrap_or(head_end);
        let line = &out[i..line_end];
        let mut replaced = false;
        if line.len() == 6 + 29 && &line[..6] == b"Date: " {
            if let Some(t) = parse_imf_fixdate(&line[6..]) {
                if (t - now).abs() <= slack {
                    res.extend_from_slice(b"Date: ");
                    res.extend_from_slice(CANON_DATE);
                    n += 1;
                    replaced = true;
                }
            }
        }
        if !replaced {
            res.extend_from_slice(line);
        }
        let e = (line_end + 2).min(out.len());
        res.extend_from_slice(&out[line_end..e]);
        i = e;
    }
    res.extend_from_slice(&out[i.min(out.len())..]);
    (res, n)
}

pub fn find(h: &[u8], n: &[u8]) -> Option<usize> {
    if n.is_empty() || h.len() < n.len() {
        return None;
    }
    h.windows(n.len()).position(|w| w == n)
}
