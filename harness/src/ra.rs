// `ra` executor (read-ahead, C11): which requests of a pipeline can be obtained from the server while
// NONE has been answered, and which become obtainable after the application acted on the request
// that holds the connection's reader.
// case line: ra <u|t> <stream hex> <all | allv | part<m> | awayR | awayD | awayW> [exp1=<k>] [exp2=<k>]
//   exp1/exp2: how many requests the model expects in each round — the harness waits generously for
//   that many and probes only briefly for one more (slowness can hide a difference, never create one)
// observation: a1=<url hex,..> a2=<url hex,..>
use crate::cv::*;
use crate::util::*;
use std::io::{Read, Write};
use std::net::Shutdown;
use std::time::{Duration, Instant};
use tiny_http::{Request, Response};

fn collect(servers: &mut Servers, kind: &str, expect: usize, held: &mut Vec<Request>, mine: &[Vec<u8>]) -> Vec<Vec<u8>> {
    let mut urls = Vec::new();
    let mut take = |rq: Request, urls: &mut Vec<Vec<u8>>, held: &mut Vec<Request>| {
        // a straggler of an earlier case's connection (parsed late from that connection's buffer) is not ours
        if mine.iter().any(|u| u.as_slice() == rq.url().as_bytes()) {
            // the request must be the one that was sent: a method made of bytes of an earlier body is not it
            let m = rq.method().as_str();
            if m.len() > 16 || !m.bytes().all(|b| b.is_ascii_uppercase()) {
                let mut u = b"BAD-METHOD:".to_vec();
                u.extend_from_slice(rq.url().as_bytes());
                urls.push(u);
            } else {
                urls.push(rq.url().as_bytes().to_vec());
            }
            held.push(rq);
        } else {
            let _ = rq.respond(Response::from_string("stale"));
        }
    };
    let t0 = Instant::now();
    while urls.len() < expect && t0.elapsed() < Duration::from_millis(3000) {
        if let Ok(Some(rq)) = servers.server(kind).recv_timeout(Duration::from_millis(5)) {
            take(rq, &mut urls, held);
        }
    }
    // probe briefly for what must not be there
    let t1 = Instant::now();
    while t1.elapsed() < Duration::from_millis(100) {
        if let Ok(Some(rq)) = servers.server(kind).recv_timeout(Duration::from_millis(5)) {
            take(rq, &mut urls, held);
        }
    }
    urls
}

/// the request targets that occur in this case's stream (every generated target is unique to its case)
fn targets_of(stream: &[u8]) -> Vec<Vec<u8>> {
    let mut out = Vec::new();
    for line in stream.split(|b| *b == b'\n') {
        let parts: Vec<&[u8]> = line.split(|b| *b == b' ').collect();
        if parts.len() >= 3 && parts[2].starts_with(b"HTTP/") && parts[1].starts_with(b"/") {
            out.push(parts[1].to_vec());
        }
    }
    out
}

fn fmt(u: &[Vec<u8>]) -> String {
    if u.is_empty() {
        "-".to_string()
    } else {
        u.iter().map(|x| hex(x)).collect::<Vec<_>>().join(",")
    }
}

pub fn run_case(servers: &mut Servers, f: &[&str]) -> String {
    let kind = f[1];
    let stream = unhex(f[2]);
    let act = f[3];
    let exp1: usize = field(f, "exp1=").map(|s| s.parse().unwrap()).unwrap_or(0);
    let exp2: usize = field(f, "exp2=").map(|s| s.parse().unwrap()).unwrap_or(0);
    while let Ok(Some(_)) = servers.server(kind).try_recv() {}
    let conn = servers.connect(kind);
    // the client sends from a thread of its own: a stream larger than the socket buffers is only taken by the server as
    // fast as the application lets it
    let mut wconn = conn.try_clone();
    let wstream = stream.clone();
    let wt = std::thread::spawn(move || {
        let _ = wconn.write_all(&wstream);
        wconn.shutdown(Shutdown::Write);
    });
    let mut held: Vec<Request> = Vec::new();
    let mine = targets_of(&stream);
    let a1 = collect(servers, kind, exp1, &mut held, &mine);
    // act on the last request obtained. Answering it, or reading the body of a request that expects
    // 100-continue, writes to the connection, which needs every earlier request to be answered first
    // (the responses leave in request order): those are answered now; plain reading needs nothing.
    let needs_turn = act.starts_with("away")
        || held.last().map(|r| r.headers().iter().any(|h| h.field.equiv("Expect"))).unwrap_or(false);
    if needs_turn && held.len() > 1 {
        let last = held.pop().unwrap();
        for rq in held.drain(..) {
            let _ = rq.respond(Response::from_string("early"));
        }
        held.push(last);
    }
    if let Some(mut rq) = held.pop() {
        if act == "allv" {
            // the same through gathered reads only (two slices per call)
            let mut a = vec![0u8; 2048];
            let mut b = vec![0u8; 2048];
            let r = rq.as_reader();
            loop {
                let mut sl = [std::io::IoSliceMut::new(&mut a), std::io::IoSliceMut::new(&mut b)];
                match r.read_vectored(&mut sl) {
                    Ok(0) | Err(_) => break,
                    Ok(_) => {}
                }
            }
            held.push(rq);
        } else if act == "all" {
            let mut buf = vec![0u8; 4096];
            let r = rq.as_reader();
            loop {
                match r.read(&mut buf) {
                    Ok(0) | Err(_) => break,
                    Ok(_) => {}
                }
            }
            held.push(rq);
        } else if let Some(m) = act.strip_prefix("part") {
            let mut left: usize = m.parse().unwrap();
            let mut buf = [0u8; 7];
            let r = rq.as_reader();
            while left > 0 {
                let want = left.min(7);
                match r.read(&mut buf[..want]) {
                    Ok(0) | Err(_) => break,
                    Ok(k) => left -= k,
                }
            }
            held.push(rq);
        } else if act == "awayR" {
            let _ = rq.respond(Response::from_string("ok"));
        } else if act == "awayD" {
            drop(rq);
        } else {
            let mut w = rq.into_writer();
            let _ = w.write_all(b"HTTP/1.1 299 Raw\r\nContent-Length: 0\r\n\r\n");
            let _ = w.flush();
            drop(w);
        }
    }
    let a2 = collect(servers, kind, exp2, &mut held, &mine);
    for rq in held {
        let _ = rq.respond(Response::from_string("bye"));
    }
    conn.shutdown(Shutdown::Both);
    let _ = wt.join();
    // leftovers that show up after the answers belong to this case, not to the next one
    let t = Instant::now();
    while t.elapsed() < Duration::from_millis(20) {
        if let Ok(Some(rq)) = servers.server(kind).recv_timeout(Duration::from_millis(5)) {
            drop(rq);
        }
    }
    format!("a1={} a2={}", fmt(&a1), fmt(&a2))
}
