// `bs` executor: N keep-alive connections opened at once against a fresh server; every one of them
// must get its answer while all the others stay open (nobody closes until the end).
// case line:  bs <u|t> <N> <handlers> [silent=<k>] [v10=1] [stall=<k>]
// observation: answered=<k> of=<N> wrong=<k> delivered=<k>
use std::io::{Read, Write};
use std::sync::atomic::{AtomicBool, AtomicUsize, Ordering};
use std::sync::Arc;
use std::time::{Duration, Instant};
use tiny_http::{Response, Server};

pub fn run_case(f: &[&str]) -> String {
    let kind = f[1];
    let n: usize = f[2].parse().unwrap();
    let handlers: usize = f[3].parse().unwrap();
    let dir = std::env::var("TH_SOCK_DIR").unwrap_or_else(|_| "/tmp".into());
    let path = std::path::PathBuf::from(format!("{}/b{}.sock", dir, std::process::id()));
    let _ = std::fs::remove_file(&path);
    let server = Arc::new(if kind == "t" { Server::http("127.0.0.1:0").unwrap() } else { Server::http_unix(&path).unwrap() });
    let stop = Arc::new(AtomicBool::new(false));
    let delivered = Arc::new(AtomicUsize::new(0));
    // v10=1: the N clients speak HTTP/1.0 with keep-alive and are answered with responses of undeclared length;
    // stall=<k>: k further HTTP/1.0 connections opened first whose 64 MiB answers of undeclared length are never read
    let v10 = f.iter().any(|x| *x == "v10=1");
    let stall: usize = f.iter().find_map(|x| x.strip_prefix("stall=")).map(|x| x.parse().unwrap()).unwrap_or(0);
    let mut hs = Vec::new();
    for _ in 0..handlers {
        let s = server.clone();
        let st = stop.clone();
        let d = delivered.clone();
        hs.push(std::thread::spawn(move || {
            while !st.load(Ordering::SeqCst) {
                if let Ok(Some(rq)) = s.recv_timeout(Duration::from_millis(20)) {
                    if rq.url().starts_with("/stall") {
                        // a response of unknown length that the client never reads: this answering thread stays blocked
                        // in the write for as long as the connection lives (it has its own thread; nobody else may wait)
                        std::thread::spawn(move || {
                            let body = std::io::repeat(b'z').take(64 * 1024 * 1024);
                            let _ = rq.respond(Response::new(tiny_http::StatusCode(200), vec![], body, None, None));
                        });
                        continue;
                    }
                    d.fetch_add(1, Ordering::SeqCst);
                    let body = rq.url().to_string();
                    if v10 {
                        // unknown length: for an HTTP/1.0 client the library has to gather the body first
                        let _ = rq.respond(Response::new(tiny_http::StatusCode(200), vec![], std::io::Cursor::new(body.into_bytes()), None, None));
                    } else {
                        let _ = rq.respond(Response::from_string(body));
                    }
                }
            }
        }));
    }
    // silent=<k>: k further connections are opened FIRST and send nothing at all while the N others are served
    // (a connection that has not yet spoken must not hold up the ones behind it)
    let silent: usize = f.iter().find_map(|x| x.strip_prefix("silent=")).map(|x| x.parse().unwrap()).unwrap_or(0);
    let mut silent_conns: Vec<crate::cv::Conn> = Vec::new();
    for _ in 0..silent {
        let c = if kind == "t" {
            crate::cv::Conn::T(std::net::TcpStream::connect(server.server_addr().to_ip().unwrap()).unwrap())
        } else {
            crate::cv::Conn::U(std::os::unix::net::UnixStream::connect(&path).unwrap())
        };
        silent_conns.push(c);
    }
    if silent > 0 {
        std::thread::sleep(Duration::from_millis(30));
    }
    let mut stalled: Vec<crate::cv::Conn> = Vec::new();
    for k in 0..stall {
        let mut c = if kind == "t" {
            crate::cv::Conn::T(std::net::TcpStream::connect(server.server_addr().to_ip().unwrap()).unwrap())
        } else {
            crate::cv::Conn::U(std::os::unix::net::UnixStream::connect(&path).unwrap())
        };
        let _ = c.write_all(format!("GET /stall{} HTTP/1.0\r\nConnection: keep-alive\r\n\r\n", k).as_bytes());
        stalled.push(c);
    }
    if stall > 0 {
        std::thread::sleep(Duration::from_millis(200));
    }
    let mut conns: Vec<crate::cv::Conn> = Vec::new();
    for _ in 0..n {
        let c = if kind == "t" {
            let a = server.server_addr().to_ip().unwrap();
            let c = std::net::TcpStream::connect(a).unwrap();
            c.set_nodelay(true).ok();
            crate::cv::Conn::T(c)
        } else {
            crate::cv::Conn::U(std::os::unix::net::UnixStream::connect(&path).unwrap())
        };
        conns.push(c);
    }
    for (i, c) in conns.iter_mut().enumerate() {
        if v10 {
            let _ = c.write_all(format!("GET /c{} HTTP/1.0\r\nConnection: keep-alive\r\n\r\n", i).as_bytes());
        } else {
            let _ = c.write_all(format!("GET /c{} HTTP/1.1\r\nHost: h\r\n\r\n", i).as_bytes());
        }
    }
    let deadline = Instant::now() + Duration::from_millis(2500);
    let mut got: Vec<Vec<u8>> = vec![Vec::new(); n];
    let mut fin: Vec<bool> = vec![false; n];
    let mut buf = [0u8; 2048];
    while Instant::now() < deadline && fin.iter().any(|x| !*x) {
        for (i, c) in conns.iter_mut().enumerate() {
            if fin[i] {
                continue;
            }
            c.set_read_timeout(Some(Duration::from_millis(2)));
            match c.read(&mut buf) {
                Ok(0) => fin[i] = true,
                Ok(k) => {
                    got[i].extend_from_slice(&buf[..k]);
                    let want = format!("/c{}", i);
                    if got[i].ends_with(want.as_bytes()) && crate::util::find(&got[i], b"\r\n\r\n").is_some() {
                        fin[i] = true;
                    }
                }
                Err(e) if e.kind() == std::io::ErrorKind::WouldBlock || e.kind() == std::io::ErrorKind::TimedOut => {}
                Err(_) => fin[i] = true,
            }
        }
    }
    let mut answered = 0;
    let mut wrong = 0;
    for i in 0..n {
        let want = format!("/c{}", i);
        if (got[i].starts_with(b"HTTP/1.1 200") || got[i].starts_with(b"HTTP/1.0 200")) && got[i].ends_with(want.as_bytes()) {
            answered += 1;
        } else if !got[i].is_empty() {
            wrong += 1;
        }
    }
    stop.store(true, Ordering::SeqCst);
    for h in hs {
        let _ = h.join();
    }
    drop(conns);
    drop(silent_conns);
    drop(stalled);
    let d = delivered.load(Ordering::SeqCst);
    drop(server);
    let _ = std::fs::remove_file(&path);
    format!("answered={} of={} wrong={} delivered={}", answered, n, wrong, d)
}
