// `pl` executor: one connection with pipelined requests, each answered by its OWN thread; the threads
// are released in the order given by the case (a permutation of the requests), each release followed
// by a wait until that thread is done or a grace period has passed (never asserting that something
// IS blocked). What the client receives must not depend on that order.
//
// case line: pl <u|t> <eof 0|1> <cfg> <stream hex> <script> order=<i,i,..> grace=<us>
//   script/finish as for `cv`, plus  X<hex> = into_writer, three writes without flush, drop
// observation: as for `cv` (requests in delivery order)
use crate::cv::*;
use crate::util::*;
use std::io::{Read, Write};
use std::net::Shutdown;
use std::sync::atomic::{AtomicBool, AtomicUsize, Ordering};
use std::sync::{mpsc, Arc, Mutex};
use std::time::{Duration, Instant};

pub fn run_case(servers: &mut Servers, f: &[&str]) -> String {
    let kind = f[1];
    let eof = f[2] == "1";
    let stream = unhex(f[4]);
    let script = parse_script(f[5]);
    let order: Vec<usize> = field(f, "order=").map(|s| s.split(',').map(|x| x.parse().unwrap()).collect()).unwrap_or_default();
    let grace = Duration::from_micros(field(f, "grace=").map(|s| s.parse().unwrap()).unwrap_or(20000));
    while let Ok(Some(_)) = servers.server(kind).try_recv() {}
    let conn = servers.connect(kind);
    let peer = conn.local_addr_string();
    let mut wconn = conn.try_clone();
    let mut rconn = conn.try_clone();
    let wire = Arc::new(Mutex::new(Vec::<u8>::new()));
    let eof_seen = Arc::new(AtomicBool::new(false));
    let _ = wconn.write_all(&stream);
    if eof {
        wconn.shutdown(Shutdown::Write);
    }
    let w2 = wire.clone();
    let e2 = eof_seen.clone();
    let stop = Arc::new(AtomicBool::new(false));
    let stop2 = stop.clone();
    rconn.set_read_timeout(Some(Duration::from_millis(20)));
    let rt = std::thread::spawn(move || {
        let mut buf = vec![0u8; 65536];
        loop {
            match rconn.read(&mut buf) {
                Ok(0) => {
                    e2.store(true, Ordering::SeqCst);
                    break;
                }
                Ok(k) => w2.lock().unwrap().extend_from_slice(&buf[..k]),
                Err(e) if e.kind() == std::io::ErrorKind::WouldBlock || e.kind() == std::io::ErrorKind::TimedOut => {
                    if stop2.load(Ordering::SeqCst) {
                        break;
                    }
                }
                Err(_) => {
                    e2.store(true, Ordering::SeqCst);
                    break;
                }
            }
        }
    });
    // collect the requests (none is answered meanwhile)
    let want = order.len();
    let mut held = Vec::new();
    let t0 = Instant::now();
    while held.len() < want && t0.elapsed() < Duration::from_millis(1500) {
        if let Ok(Some(rq)) = servers.server(kind).recv_timeout(Duration::from_millis(5)) {
            held.push(Some(rq));
        }
    }
    let n = held.len();
    let texts: Arc<Mutex<Vec<Option<String>>>> = Arc::new(Mutex::new(vec![None; n]));
    let done = Arc::new(AtomicUsize::new(0));
    let mut go: Vec<Option<mpsc::Sender<()>>> = Vec::new();
    let mut hs = Vec::new();
    for (i, slot) in held.iter_mut().enumerate() {
        let rq = slot.take().unwrap();
        let act = if i < script.len() { script[i].clone() } else { script.last().unwrap().clone() };
        let (tx, rx) = mpsc::channel::<()>();
        go.push(Some(tx));
        let tx2 = texts.clone();
        let d2 = done.clone();
        let p2 = peer.clone();
        hs.push(std::thread::spawn(move || {
            let _ = rx.recv();
            let r = std::panic::catch_unwind(std::panic::AssertUnwindSafe(|| handle(rq, &act, &p2).text));
            tx2.lock().unwrap()[i] = Some(r.unwrap_or_else(|_| "[PANIC-IN-HANDLER]".to_string()));
            d2.fetch_add(1, Ordering::SeqCst);
        }));
    }
    let noearly = field(f, "noearly=").is_some();
    let mut early_eof = false;
    for (pos, &i) in order.iter().enumerate() {
        if i >= n {
            continue;
        }
        if noearly && pos + 1 == order.len() {
            // every other request has had its grace period; this one is still unanswered: the server
            // must not have closed its sending side yet
            std::thread::sleep(Duration::from_millis(60));
            early_eof = eof_seen.load(Ordering::SeqCst);
        }
        let before = done.load(Ordering::SeqCst);
        if let Some(tx) = go[i].take() {
            let _ = tx.send(());
        }
        let s = Instant::now();
        while s.elapsed() < grace && done.load(Ordering::SeqCst) == before {
            std::hint::spin_loop();
        }
    }
    // anything not named in the order is released last
    for g in go.iter_mut() {
        if let Some(tx) = g.take() {
            let _ = tx.send(());
        }
    }
    let t1 = Instant::now();
    while done.load(Ordering::SeqCst) < n && t1.elapsed() < Duration::from_millis(4000) {
        std::thread::sleep(Duration::from_millis(1));
    }
    let all_done = done.load(Ordering::SeqCst) == n;
    // wait for the end of the connection (eof) or for quiet
    let t2 = Instant::now();
    let mut end = "open";
    loop {
        if eof_seen.load(Ordering::SeqCst) {
            end = "closed";
            break;
        }
        if t2.elapsed() > Duration::from_millis(if eof { 3000 } else { 150 }) {
            if eof {
                end = "hang";
            }
            break;
        }
        std::thread::sleep(Duration::from_millis(1));
    }
    if !all_done {
        end = "hang";
    }
    conn.shutdown(Shutdown::Both);
    stop.store(true, Ordering::SeqCst);
    let _ = rt.join();
    for h in hs {
        if h.is_finished() {
            let _ = h.join();
        }
    }
    let w = canon_dates_anywhere(&wire.lock().unwrap());
    let texts = texts.lock().unwrap();
    format!(
        "n={} {}wire={} end={} stray=0{}",
        n,
        texts.iter().map(|t| format!("{} ", t.clone().unwrap_or("[NOT-FINISHED]".into()))).collect::<String>(),
        hex(&w),
        end,
        if noearly { format!(" early_eof={} closed_at_end={}", if early_eof { 1 } else { 0 }, if end == "closed" { 1 } else { 0 }) } else { String::new() }
    )
}
