// `cv` executor: one conversation on one connection against the real server, with a sequential
// application that treats each delivered request as the script says.
//
// case line:
//   cv <u|t> <eof 0|1> <cfg> <stream hex> <script> [seg=<n,n,..>] [gap=<ms>] [exp=<wire bytes>]
//   script  = action{;action}      (the last action is also used for any further request)
//   action  = <reads>/<finish>
//   reads   = - | m@n{,m@n}         (obtain up to m body bytes (m = * : all) with an n-byte buffer)
//   finish  = R<status>:<body hex>:<declared 0|1> | D | P | W<hex> | U<proto hex>
// observation line:
//   n=<k> [m=..,u=..,v=a.b,h=..,bl=..,rd=..,e=..]* wire=<hex> end=<closed|open|hang> stray=<n>
use crate::util::*;
use std::io::{Read, Write};
use std::net::Shutdown;
use std::sync::atomic::{AtomicBool, Ordering};
use std::sync::{Arc, Mutex};
use std::time::{Duration, Instant};
use tiny_http::{Request, Response, Server, StatusCode};

pub enum Conn {
    U(std::os::unix::net::UnixStream),
    T(std::net::TcpStream),
}
impl Conn {
    pub fn try_clone(&self) -> Conn {
        match self {
            Conn::U(s) => Conn::U(s.try_clone().unwrap()),
            Conn::T(s) => Conn::T(s.try_clone().unwrap()),
        }
    }
    pub fn shutdown(&self, how: Shutdown) {
        let _ = match self {
            Conn::U(s) => s.shutdown(how),
            Conn::T(s) => s.shutdown(how),
        };
    }
    pub fn set_read_timeout(&self, d: Option<Duration>) {
        let _ = match self {
            Conn::U(s) => s.set_read_timeout(d),
            Conn::T(s) => s.set_read_timeout(d),
        };
    }
    pub fn local_addr_string(&self) -> String {
        match self {
            Conn::U(_) => "-".into(),
            Conn::T(s) => s.local_addr().map(|a| a.to_string()).unwrap_or("?".into()),
        }
    }
}
impl Read for Conn {
    fn read(&mut self, b: &mut [u8]) -> std::io::Result<usize> {
        match self {
            Conn::U(s) => s.read(b),
            Conn::T(s) => s.read(b),
        }
    }
}
impl Write for Conn {
    fn write(&mut self, b: &[u8]) -> std::io::Result<usize> {
        match self {
            Conn::U(s) => s.write(b),
            Conn::T(s) => s.write(b),
        }
    }
    fn flush(&mut self) -> std::io::Result<()> {
        Ok(())
    }
}

pub struct Servers {
    pub unix: Option<(Server, std::path::PathBuf)>,
    pub tcp: Option<(Server, std::net::SocketAddr)>,
    pub suffix: &'static str,
}

impl Servers {
    pub fn new() -> Servers {
        Servers { unix: None, tcp: None, suffix: "" }
    }
    /// servers of their own (another socket path), for a conversation that must not share its request queue
    pub fn fresh(suffix: &'static str) -> Servers {
        Servers { unix: None, tcp: None, suffix }
    }
    pub fn unix(&mut self) -> &(Server, std::path::PathBuf) {
        if self.unix.is_none() {
            let dir = std::env::var("TH_SOCK_DIR").unwrap_or_else(|_| "/tmp".into());
            let path = std::path::PathBuf::from(format!("{}/h{}{}.sock", dir, std::process::id(), self.suffix));
            let _ = std::fs::remove_file(&path);
            let s = Server::http_unix(&path).expect("unix server");
            self.unix = Some((s, path));
        }
        self.unix.as_ref().unwrap()
    }
    pub fn tcp(&mut self) -> &(Server, std::net::SocketAddr) {
        if self.tcp.is_none() {
            let s = Server::http("127.0.0.1:0").expect("tcp server");
            let a = s.server_addr().to_ip().unwrap();
            self.tcp = Some((s, a));
        }
        self.tcp.as_ref().unwrap()
    }
    pub fn connect(&mut self, kind: &str) -> Conn {
        if kind == "t" {
            let a = self.tcp().1;
            let c = std::net::TcpStream::connect(a).expect("connect");
            c.set_nodelay(true).ok();
            Conn::T(c)
        } else {
            let p = self.unix().1.clone();
            Conn::U(std::os::unix::net::UnixStream::connect(p).expect("connect"))
        }
    }
    pub fn server(&mut self, kind: &str) -> &Server {
        if kind == "t" {
            &self.tcp().0
        } else {
            &self.unix().0
        }
    }
}

#[derive(Clone)]
pub struct Action {
    /// (bytes wanted, buffer size, number of slices: 1 = plain read, k > 1 = read_vectored with k slices)
    pub reads: Vec<(Option<usize>, usize)>,
    pub slices: Vec<usize>,
    pub finish: String,
}

pub fn parse_script(s: &str) -> Vec<Action> {
    s.split(';')
        .map(|a| {
            let mut it = a.splitn(2, '/');
            let r = it.next().unwrap();
            let f = it.next().unwrap_or("D");
            let mut slices = Vec::new();
            let reads = if r == "-" {
                Vec::new()
            } else {
                r.split(',')
                    .map(|x| {
                        let mut p = x.splitn(2, '@');
                        let m = p.next().unwrap();
                        let nk = p.next().unwrap();
                        let mut q = nk.splitn(2, '*');
                        let n: usize = q.next().unwrap().parse().unwrap();
                        slices.push(q.next().map(|k| k.parse().unwrap()).unwrap_or(1));
                        (if m == "*" { None } else { Some(m.parse().unwrap()) }, n)
                    })
                    .collect()
            };
            Action { reads, slices, finish: f.to_string() }
        })
        .collect()
}

pub struct ReqObs {
    pub text: String,
}

/// Performs the action on the request; returns the observation of the request.
pub fn handle(rq: Request, act: &Action, peer_expect: &str) -> ReqObs {
    handle_with(rq, act, peer_expect, None)
}

/// `partial`: receives the observation as it stands just before the finishing action, for the case
/// that the finishing call never returns.
pub fn handle_with(mut rq: Request, act: &Action, peer_expect: &str, partial: Option<Arc<Mutex<Option<String>>>>) -> ReqObs {
    let m = rq.method().as_str().as_bytes().to_vec();
    let u = rq.url().as_bytes().to_vec();
    let v = format!("{}.{}", rq.http_version().0, rq.http_version().1);
    let hs: Vec<(Vec<u8>, Vec<u8>)> = rq
        .headers()
        .iter()
        .map(|h| (h.field.as_str().as_bytes().to_vec(), h.value.as_str().as_bytes().to_vec()))
        .collect();
    let bl = rq.body_length();
    let addr_ok = match rq.remote_addr() {
        None => peer_expect == "-",
        Some(a) => a.to_string() == peer_expect,
    };
    let mut got: Vec<u8> = Vec::new();
    let mut end = "count";
    if !act.reads.is_empty() {
        let rd = rq.as_reader();
        'outer: for (ri, (m_opt, n)) in act.reads.iter().enumerate() {
            let mut left = m_opt.unwrap_or(usize::MAX);
            let k = act.slices.get(ri).copied().unwrap_or(1);
            if k == 0 {
                // "n*0": the whole rest of the body with Read::read_to_end (which chooses its own buffer sizes)
                let mut all = Vec::new();
                match rd.read_to_end(&mut all) {
                    Ok(_) => end = "eof",
                    Err(_) => end = "err",
                }
                got.extend_from_slice(&all);
                if end == "err" {
                    break 'outer;
                }
                continue;
            }
            let mut buf = vec![0u8; *n];
            let mut more: Vec<Vec<u8>> = (1..k).map(|_| vec![0u8; *n]).collect();
            end = "count";
            while left > 0 {
                let want = left.min(*n);
                let r = if k > 1 {
                    // read_vectored with k slices of n bytes; what lands in the later slices is appended too
                    let mut sl: Vec<std::io::IoSliceMut<'_>> = Vec::new();
                    sl.push(std::io::IoSliceMut::new(&mut buf[..want]));
                    for b in more.iter_mut() {
                        sl.push(std::io::IoSliceMut::new(&mut b[..]));
                    }
                    match rd.read_vectored(&mut sl) {
                        Ok(total) if total > want => {
                            got.extend_from_slice(&buf[..want]);
                            let mut rest = total - want;
                            for b in more.iter() {
                                let take = rest.min(b.len());
                                got.extend_from_slice(&b[..take]);
                                rest -= take;
                            }
                            left = left.saturating_sub(total);
                            continue;
                        }
                        x => x,
                    }
                } else {
                    rd.read(&mut buf[..want])
                };
                match r {
                    Ok(0) => {
                        end = "eof";
                        break 'outer;
                    }
                    Ok(k) => {
                        got.extend_from_slice(&buf[..k]);
                        left -= k;
                    }
                    Err(_) => {
                        end = "err";
                        break 'outer;
                    }
                }
            }
        }
    }
    // the head is the request's, not a view that changes with what the application does: after the body has been
    // asked for, the method, target, version, headers and length reported are those reported at delivery
    let hs2: Vec<(Vec<u8>, Vec<u8>)> = rq
        .headers()
        .iter()
        .map(|h| (h.field.as_str().as_bytes().to_vec(), h.value.as_str().as_bytes().to_vec()))
        .collect();
    let stable = hs2 == hs
        && rq.method().as_str().as_bytes() == m.as_slice()
        && rq.url().as_bytes() == u.as_slice()
        && format!("{}.{}", rq.http_version().0, rq.http_version().1) == v
        && rq.body_length() == bl;
    let render = |got: &Vec<u8>, end: &str| {
        format!(
            "[m={},u={},v={},h={},bl={},rd={},e={}{}{}]",
            hex(&m),
            hex(&u),
            v,
            if hs.is_empty() {
                "-".to_string()
            } else {
                hs.iter().map(|(n, v)| format!("{}:{}", hex(n), hex(v))).collect::<Vec<_>>().join("+")
            },
            bl.map(|x| x.to_string()).unwrap_or("-".into()),
            hex(got),
            end,
            if addr_ok { "" } else { ",addr=WRONG" },
            if stable { "" } else { ",head=CHANGED-AFTER-BODY-ACCESS" }
        )
    };
    if let Some(p) = &partial {
        *p.lock().unwrap() = Some(render(&got, end));
    }
    let f = act.finish.as_str();
    let (k, rest) = f.split_at(1);
    match k {
        "R" => {
            let p: Vec<&str> = rest.split(':').collect();
            let st: u16 = p[0].parse().unwrap();
            let body = unhex(p[1]);
            let dl = if p[2] == "1" { Some(body.len()) } else { None };
            let resp = Response::new(StatusCode(st), vec![], std::io::Cursor::new(body), dl, None);
            let r = rq.respond(resp);
            if r.is_err() {
                end = "respond-err";
            }
        }
        "D" => drop(rq),
        "P" => {
            let r = std::panic::catch_unwind(std::panic::AssertUnwindSafe(move || {
                let _held = rq;
                panic!("handler panics while holding the request");
            }));
            assert!(r.is_err());
        }
        "W" => {
            let data = unhex(rest);
            let mut w = rq.into_writer();
            let _ = w.write_all(&data);
            let _ = w.flush();
            drop(w);
        }
        "Y" => {
            // raw writer: first half, flush, a pause, second half, drop
            let data = unhex(rest);
            let mut w = rq.into_writer();
            let a = data.len() / 2;
            let _ = w.write_all(&data[..a]);
            let _ = w.flush();
            std::thread::sleep(Duration::from_millis(3));
            let _ = w.write_all(&data[a..]);
            drop(w);
        }
        "Q" => {
            // takes the raw writer and panics before the first write: unwinding drops the writer
            let r = std::panic::catch_unwind(std::panic::AssertUnwindSafe(move || {
                let _w = rq.into_writer();
                panic!("handler panics while holding the request");
            }));
            assert!(r.is_err());
        }
        "F" => {
            // raw writer: flush BEFORE the first write (e.g. a wrapping BufWriter that is still empty), then write
            let data = unhex(rest);
            let mut w = rq.into_writer();
            let _ = w.flush();
            let _ = w.write_all(&data);
            let _ = w.flush();
            drop(w);
        }
        "E" => {
            // respond with a body of undeclared length whose reader FAILS after having delivered the given bytes: what was
            // sent stays one (chunk-terminated) response; nothing may be appended to it
            struct Failing {
                d: Vec<u8>,
                pos: usize,
            }
            impl Read for Failing {
                fn read(&mut self, buf: &mut [u8]) -> std::io::Result<usize> {
                    if self.pos >= self.d.len() {
                        return Err(std::io::Error::new(std::io::ErrorKind::Other, "the application's body source failed"));
                    }
                    let n = buf.len().min(self.d.len() - self.pos);
                    buf[..n].copy_from_slice(&self.d[self.pos..self.pos + n]);
                    self.pos += n;
                    Ok(n)
                }
            }
            let data = unhex(rest);
            let resp = Response::new(StatusCode(200), vec![], Failing { d: data, pos: 0 }, None, None);
            let _ = rq.respond(resp);
        }
        "V" => {
            // raw writer: gathered writes (head and body as two slices) until everything is written, flush, drop
            let data = unhex(rest);
            let mut w = rq.into_writer();
            let a = data.len() / 3;
            let mut done = 0usize;
            while done < data.len() {
                let r = if done < a {
                    w.write_vectored(&[std::io::IoSlice::new(&data[done..a]), std::io::IoSlice::new(&data[a..])])
                } else {
                    w.write_vectored(&[std::io::IoSlice::new(&data[done..])])
                };
                match r {
                    Ok(0) | Err(_) => break,
                    Ok(k) => done += k,
                }
            }
            let _ = w.flush();
            drop(w);
        }
        "Z" => {
            // takes the raw writer and drops it untouched
            let w = rq.into_writer();
            drop(w);
        }
        "X" => {
            let data = unhex(rest);
            let mut w = rq.into_writer();
            let a = data.len() / 3;
            let _ = w.write_all(&data[..a]);
            let _ = w.write_all(&data[a..2 * a]);
            let _ = w.write_all(&data[2 * a..]);
            drop(w);
        }
        "U" => {
            let proto = String::from_utf8(unhex(rest)).unwrap();
            let mut stream = rq.upgrade(&proto, Response::empty(101));
            let mut buf = vec![0u8; 4096];
            loop {
                match stream.read(&mut buf) {
                    Ok(0) => {
                        end = "eof";
                        break;
                    }
                    Ok(k) => got.extend_from_slice(&buf[..k]),
                    Err(_) => {
                        end = "err";
                        break;
                    }
                }
            }
            drop(stream);
        }
        _ => panic!("finish {}", f),
    }
    ReqObs { text: render(&got, end) }
}

/// Replaces every `Date: <valid current IMF-fixdate>` header line in a byte stream. Current = between the
/// moment the case was taken up and now (2 s of slack on both sides): a long conversation (hundreds of
/// segments with pauses) may have its first answer written seconds before the stream is looked at.
pub fn canon_dates_anywhere(w: &[u8]) -> Vec<u8> {
    let pat = b"\r\nDate: ";
    let mut out = Vec::with_capacity(w.len());
    let mut i = 0;
    let now = now_secs();
    while i < w.len() {
        if w[i..].starts_with(pat) && i + pat.len() + 29 + 2 <= w.len() {
            let v = &w[i + pat.len()..i + pat.len() + 29];
            if &w[i + pat.len() + 29..i + pat.len() + 31] == b"\r\n" {
                if let Some(t) = parse_imf_fixdate(v) {
                    let start = CASE_START_SECS.load(std::sync::atomic::Ordering::SeqCst);
                    if t >= start.min(now) - 2 && t <= now + 2 {
                        out.extend_from_slice(pat);
                        out.extend_from_slice(CANON_DATE);
                        i += pat.len() + 29;
                        continue;
                    }
                }
            }
        }
        out.push(w[i]);
        i += 1;
    }
    out
}

pub fn field<'a>(f: &'a [&str], key: &str) -> Option<&'a str> {
    for x in f {
        if x.starts_with(key) {
            return Some(&x[key.len()..]);
        }
    }
    None
}

pub fn run_case(servers: &mut Servers, f: &[&str]) -> String {
    let kind = f[1];
    let eof = f[2] == "1";
    let stream = unhex(f[4]);
    let script = parse_script(f[5]);
    let seg: Vec<usize> = field(f, "seg=").map(|s| s.split(',').map(|x| x.parse().unwrap()).collect()).unwrap_or_default();
    let gap: u64 = field(f, "gap=").map(|s| s.parse().unwrap()).unwrap_or(0);
    let exp: Option<usize> = field(f, "exp=").map(|s| s.parse().unwrap());
    let limit = Duration::from_millis(field(f, "limit=").map(|s| s.parse().unwrap()).unwrap_or(4000));
    // how the client ends: half (shutdown of its sending side, default), full (closes the socket), rst
    // (TCP reset through SO_LINGER 0); hold=<n>: the bytes after the first n are only sent once a
    // "100 Continue" has arrived (or 400 ms have passed)
    let fin = field(f, "fin=").unwrap_or("half").to_string();
    let hold: Option<usize> = field(f, "hold=").map(|s| s.parse().unwrap());

    // leftovers of an earlier conversation must not be attributed to this one
    while let Ok(Some(_)) = servers.server(kind).try_recv() {}
    let c14 = field(f, "c14=").is_some();
    if c14 {
        crate::MAX_ALLOC.store(0, Ordering::SeqCst);
        crate::LIB_PANICS.store(0, Ordering::SeqCst);
    }

    if eof && (fin == "rst" || fin == "full" || fin == "unread") {
        return run_vanish(servers, kind, &stream, &script, &fin, c14);
    }
    let conn = servers.connect(kind);
    let peer = conn.local_addr_string();
    let mut wconn = conn.try_clone();
    let mut rconn = conn.try_clone();
    let wire = Arc::new(Mutex::new(Vec::<u8>::new()));
    let eof_seen = Arc::new(AtomicBool::new(false));
    let writer_done = Arc::new(AtomicBool::new(false));

    let wd = writer_done.clone();
    let wire_w = wire.clone();
    let fin_w = fin.clone();
    let wt = std::thread::spawn(move || {
        let mut stream = stream;
        if let Some(h) = hold {
            if h < stream.len() {
                let rest = stream.split_off(h);
                let _ = wconn.write_all(&stream);
                let t = Instant::now();
                while t.elapsed() < Duration::from_millis(400) {
                    if find(&wire_w.lock().unwrap(), b" 100 ").is_some() {
                        break;
                    }
                    std::thread::sleep(Duration::from_millis(1));
                }
                stream = rest;
            }
        }
        // one write per segment; remaining bytes go in one write
        let mut pos = 0;
        for s in seg {
            if pos >= stream.len() {
                break;
            }
            let e = (pos + s).min(stream.len());
            if wconn.write_all(&stream[pos..e]).is_err() {
                break;
            }
            pos = e;
            if gap > 0 {
                std::thread::sleep(Duration::from_millis(gap));
            }
        }
        if pos < stream.len() {
            let _ = wconn.write_all(&stream[pos..]);
        }
        if eof {
            match fin_w.as_str() {
                "full" => wconn.shutdown(Shutdown::Both),
                _ => wconn.shutdown(Shutdown::Write),
            }
        }
        wd.store(true, Ordering::SeqCst);
    });
    let w2 = wire.clone();
    let e2 = eof_seen.clone();
    rconn.set_read_timeout(Some(Duration::from_millis(20)));
    let stop = Arc::new(AtomicBool::new(false));
    let stop2 = stop.clone();
    // rdelay=<ms>: the client starts reading only after that long (a slow reader: the server's writes fill the socket buffers)
    let rdelay: u64 = field(f, "rdelay=").map(|s| s.parse().unwrap()).unwrap_or(0);
    let rt = std::thread::spawn(move || {
        let mut buf = vec![0u8; 65536];
        if rdelay > 0 {
            std::thread::sleep(Duration::from_millis(rdelay));
        }
        loop {
            match rconn.read(&mut buf) {
                Ok(0) => {
                    e2.store(true, Ordering::SeqCst);
                    break;
                }
                Ok(k) => w2.lock().unwrap().extend_from_slice(&buf[..k]),
                Err(e) if e.kind() == std::io::ErrorKind::WouldBlock || e.kind() == std::io::ErrorKind::TimedOut => {
                    if stop2.load(Ordering::SeqCst) {
                        break;
                    }
                }
                Err(_) => {
                    // a reset after the data counts as end-of-stream (DESIGN 5.4)
                    e2.store(true, Ordering::SeqCst);
                    break;
                }
            }
        }
    });

    // watchdog: whatever blocks (a body read that never ends, a respond that never returns) is
    // released by closing the client side when the time limit is reached
    let finished = Arc::new(AtomicBool::new(false));
    let fin2 = finished.clone();
    let wdconn = conn.try_clone();
    let wdt = std::thread::spawn(move || {
        let t = Instant::now();
        while !fin2.load(Ordering::SeqCst) {
            if t.elapsed() > limit + Duration::from_millis(200) {
                wdconn.shutdown(Shutdown::Both);
                break;
            }
            std::thread::sleep(Duration::from_millis(2));
        }
    });
    let start = Instant::now();
    let mut reqs: Vec<String> = Vec::new();
    let mut idx = 0;
    let mut reached: Option<Instant> = None;
    let mut end = "hang";
    let mut watchdog_fired = false;
    let mut blocked_handlers: Vec<std::thread::JoinHandle<()>> = Vec::new();
    let mut recv_errors = 0usize;
    loop {
        let r = servers.server(kind).recv_timeout(Duration::from_millis(5));
        if r.is_err() {
            // what one client does to its connection must never surface as an error of the application's receive call
            recv_errors += 1;
        }
        if let Ok(Some(rq)) = r {
            let act = if idx < script.len() { &script[idx] } else { script.last().unwrap() };
            idx += 1;
            // the handler runs in its own thread: a finishing call that does not return (e.g. the drop of a
            // request whose announced body the client withholds) must not stop the observation
            let slot: Arc<Mutex<Option<String>>> = Arc::new(Mutex::new(None));
            let (tx, rx) = std::sync::mpsc::channel::<Result<String, ()>>();
            let (act2, peer2, slot2) = (act.clone(), peer.clone(), slot.clone());
            let hth = std::thread::spawn(move || {
                let r = std::panic::catch_unwind(std::panic::AssertUnwindSafe(|| handle_with(rq, &act2, &peer2, Some(slot2)).text));
                let _ = tx.send(r.map_err(|_| ()));
            });
            let mut gave_up = false;
            loop {
                match rx.recv_timeout(Duration::from_millis(5)) {
                    Ok(Ok(t)) => {
                        reqs.push(t);
                        break;
                    }
                    Ok(Err(())) => {
                        reqs.push("[PANIC-IN-HANDLER]".to_string());
                        break;
                    }
                    Err(_) => {
                        if start.elapsed() > limit {
                            gave_up = true;
                            break;
                        }
                    }
                }
            }
            if gave_up {
                reqs.push(slot.lock().unwrap().clone().unwrap_or("[HANDLER-BLOCKED]".to_string()));
                blocked_handlers.push(hth);
                // what the CLIENT has seen decides: a handler may still be blocked (discarding a body the client
                // withholds) although the answer and the end of the stream have reached the client
                end = if eof_seen.load(Ordering::SeqCst) { "closed" } else if eof { "hang" } else { "open" };
                break;
            }
            let _ = hth.join();
            continue;
        }
        if eof_seen.load(Ordering::SeqCst) {
            end = "closed";
            break;
        }
        if let Some(n) = exp {
            if !eof && wire.lock().unwrap().len() >= n && writer_done.load(Ordering::SeqCst) {
                match reached {
                    None => reached = Some(Instant::now()),
                    Some(t) if t.elapsed() > Duration::from_millis(60) => {
                        end = "open";
                        break;
                    }
                    _ => {}
                }
            }
        }
        if start.elapsed() > limit {
            end = if eof { "hang" } else { "open" };
            watchdog_fired = true;
            break;
        }
    }
    let _ = watchdog_fired;
    // the conversation is over: close everything, collect
    conn.shutdown(Shutdown::Both);
    stop.store(true, Ordering::SeqCst);
    finished.store(true, Ordering::SeqCst);
    let _ = wdt.join();
    let _ = wt.join();
    let _ = rt.join();
    for h in blocked_handlers {
        // closing the client's socket releases whatever the handler was blocked in
        let t = Instant::now();
        while !h.is_finished() && t.elapsed() < Duration::from_millis(2000) {
            std::thread::sleep(Duration::from_millis(2));
        }
        if h.is_finished() {
            let _ = h.join();
        }
    }
    // give the connection thread a moment to notice, then count stray deliveries
    let mut stray = 0;
    if end != "closed" {
        let t = Instant::now();
        while t.elapsed() < Duration::from_millis(30) {
            if let Ok(Some(rq)) = servers.server(kind).recv_timeout(Duration::from_millis(5)) {
                stray += 1;
                drop(rq);
            }
        }
    }
    let w = canon_dates_anywhere(&wire.lock().unwrap());
    let extra = if c14 {
        // give a panicking or allocating server thread the time to get there
        std::thread::sleep(Duration::from_millis(3));
        let p = crate::LIB_PANICS.load(Ordering::SeqCst);
        format!(
            " maxalloc={} panics={}{}",
            crate::MAX_ALLOC.load(Ordering::SeqCst),
            p,
            if p > 0 { format!(" panic={}", crate::LAST_PANIC.lock().map(|g| g.clone()).unwrap_or_default()) } else { String::new() }
        )
    } else {
        String::new()
    };
    let extra = if recv_errors > 0 { format!("{} recverr={}", extra, recv_errors) } else { extra };
    format!("n={} {}wire={} end={} stray={}{}", reqs.len(), reqs.iter().map(|r| format!("{} ", r)).collect::<String>(), hex(&w), end, stray, extra)
}

/// The client sends its bytes and vanishes at once: `full` = closes the socket (FIN; later data from
/// the server is answered by RST), `rst` = abortive close (SO_LINGER 0, TCP). Nothing can be read
/// back; the observation is what the application was handed and whether answering worked.
fn run_vanish(_shared: &mut Servers, kind: &str, stream: &[u8], script: &[Action], fin: &str, c14: bool) -> String {
    // a server of its own: the request of a client that has vanished may be delivered arbitrarily late (the connection
    // thread has to notice first); with a shared server it would turn up in a later case
    let mut own = Servers::fresh("v");
    let servers = &mut own;
    let mut c = servers.connect(kind);
    let peer = c.local_addr_string();
    let _ = c.write_all(stream);
    // unread: the client stays for 150 ms (the handler runs, the server's bytes arrive), then closes WITHOUT having read
    // them: the kernel answers with a reset, and the server's next read fails with an error instead of end-of-stream
    let mut late_close: Option<std::thread::JoinHandle<()>> = None;
    let mut c = Some(c);
    if fin == "unread" {
        let cc = c.take().unwrap();
        late_close = Some(std::thread::spawn(move || {
            std::thread::sleep(Duration::from_millis(150));
            drop(cc);
        }));
    }
    if fin == "rst" {
        if let Some(Conn::T(s)) = &c {
            use std::os::unix::io::AsRawFd;
            let l = libc::linger { l_onoff: 1, l_linger: 0 };
            unsafe {
                libc::setsockopt(s.as_raw_fd(), libc::SOL_SOCKET, libc::SO_LINGER, &l as *const _ as *const libc::c_void,
                                 std::mem::size_of::<libc::linger>() as libc::socklen_t);
            }
        }
    }
    drop(c);
    let start = Instant::now();
    let mut last = Instant::now();
    let mut reqs: Vec<String> = Vec::new();
    let mut idx = 0;
    let quiet = if fin == "unread" { 400 } else { 120 };
    let mut recv_errors = 0usize;
    while start.elapsed() < Duration::from_millis(3000) && last.elapsed() < Duration::from_millis(quiet) {
        let r = servers.server(kind).recv_timeout(Duration::from_millis(5));
        if r.is_err() {
            recv_errors += 1;
            last = Instant::now();
        }
        if let Ok(Some(rq)) = r {
            let act = if idx < script.len() { &script[idx] } else { script.last().unwrap() };
            idx += 1;
            let r = std::panic::catch_unwind(std::panic::AssertUnwindSafe(|| handle(rq, act, &peer).text));
            match r {
                Ok(t) => reqs.push(t),
                Err(_) => reqs.push("[PANIC-IN-HANDLER]".to_string()),
            }
            last = Instant::now();
        }
    }
    if let Some(h) = late_close {
        let _ = h.join();
    }
    let extra = if c14 {
        std::thread::sleep(Duration::from_millis(30));
        let p = crate::LIB_PANICS.load(Ordering::SeqCst);
        format!(
            " maxalloc={} panics={}{}",
            crate::MAX_ALLOC.load(Ordering::SeqCst),
            p,
            if p > 0 { format!(" panic={}", crate::LAST_PANIC.lock().map(|g| g.clone()).unwrap_or_default()) } else { String::new() }
        )
    } else {
        String::new()
    };
    let extra = if recv_errors > 0 { format!("{} recverr={}", extra, recv_errors) } else { extra };
    format!("n={} {}wire=- end=closed stray=0{}", reqs.len(), reqs.iter().map(|r| format!("{} ", r)).collect::<String>(), extra)
}
