#!/bin/sh
# builds the model driver from the extracted model.ml (written by coq/theories/Extract/Extract.v)
set -e
cd "$(dirname "$0")"
ocamlfind ocamlopt -O2 -w -a -package zarith -linkpkg model.mli model.ml conv.ml explore.ml driver.ml -o driver 2>/dev/null || \
ocamlfind ocamlopt -w -a -package zarith -linkpkg model.mli model.ml conv.ml explore.ml driver.ml -o driver
