(* explore.ml — exhaustive exploration of the extracted concurrency models (Conc/Instances.v) over
   all interleavings that are consistent with what the harness observed of a scripted run of the real
   component: the script's release order, which calls had completed before the next operation was
   released, and nothing else (time is abstracted: the clock is advanced only to the instants at
   which the model's behaviour can change). The result is the SET of outcomes the model allows;
   the check demands that the implementation's outcome is a member.  Hand-written, part of the
   trusted base of the correspondence (it cannot make a theorem true; it can only mis-judge a run). *)
open Conv

let rec nat_to_int (n : Model.nat) : int = int_of_nat n
let nat_opt = function None -> None | Some i -> Some (nat_of_int i)

(* ---------------- message queue ---------------- *)
type mqop = OPush of int | OUnblock | OCall of int * string * int (* receiver, kind, ms *) | ONop

let parse_mq_ops (s : string) : mqop array =
  Array.of_list (List.map (fun o ->
      if o = "u" then OUnblock
      else if o.[0] = 'p' then OPush (int_of_string (String.sub o 1 (String.length o - 1)))
      else if o.[0] = 'r' || o.[0] = 'R' then begin
        let (t, w) = split2 '.' (String.sub o 1 (String.length o - 1)) in
        if w = "pop" then OCall (int_of_string t, "pop", 0)
        else if w = "try" then OCall (int_of_string t, "try", 0)
        else OCall (int_of_string t, "timed", int_of_string (String.sub w 5 (String.length w - 5)))
      end else ONop) (String.split_on_char ',' s))

let rs_str (r : Model.rstate) : string =
  match r with
  | Model.Idle -> "I" | Model.PopBlocked -> "B" | Model.PopWoken -> "W"
  | Model.TBlocked (a, b, c, d) -> Printf.sprintf "TB%d,%d,%d,%d" (nat_to_int a) (nat_to_int b) (nat_to_int c) (nat_to_int d)
  | Model.TWoken (o, a, b, c, d) -> Printf.sprintf "TW%b,%d,%d,%d,%d" o (nat_to_int a) (nat_to_int b) (nat_to_int c) (nat_to_int d)

let q_str (q : Model.nat Model.item list) : string =
  if q = [] then "-" else
    String.concat "," (List.map (function Model.Elem v -> string_of_int (nat_to_int v) | Model.Token -> "T") q)

(* explorer state *)
type mqstate = {
  st : Model.nat Model.st;
  pos : int;                         (* next operation the main thread releases *)
  pending : int list array;          (* per receiver: released calls not yet started (op indices) *)
  incall : int array;                (* per receiver: op index of the call it is in, or -1 *)
  results : (int * string) list;     (* op index -> result *)
}

let mq_key (s : mqstate) : string =
  Printf.sprintf "%s|%d|%s|%d|%s|%s|%s" (q_str s.st.Model.q) (nat_to_int s.st.Model.now)
    (String.concat ";" (List.map rs_str s.st.Model.rs)) s.pos
    (String.concat ";" (Array.to_list (Array.map (fun l -> String.concat "," (List.map string_of_int l)) s.pending)))
    (String.concat "," (Array.to_list (Array.map string_of_int s.incall)))
    (String.concat "," (List.map (fun (i, r) -> Printf.sprintf "%d:%s" i r) (List.sort compare s.results)))

let explore_mq (fixed : bool) (nrecv : int) (ops : mqop array) (doneflags : string) : string list =
  let k = Array.length ops in
  let seen = Hashtbl.create 4096 in
  let outcomes = Hashtbl.create 64 in
  let budget = ref 400000 in
  let step s l = Model.mq_step fixed s l in
  let blocked_idx (st : Model.nat Model.st) =
    List.filter (fun i -> Model.is_blocked (List.nth st.Model.rs i)) (List.init nrecv (fun i -> i)) in
  (* after a step of receiver t: did its call return, and with what *)
  let after_recv (s : mqstate) (t : int) (st' : Model.nat Model.st) : mqstate =
    let r' = List.nth st'.Model.rs t in
    if r' = Model.Idle && s.incall.(t) >= 0 then begin
      let g = List.length s.st.Model.got and g' = List.length st'.Model.got in
      let res = if g' > g then "v" ^ string_of_int (nat_to_int (List.nth st'.Model.got (g' - 1))) else "N" in
      let incall = Array.copy s.incall in
      let i = incall.(t) in
      incall.(t) <- -1;
      { s with st = st'; incall; results = (i, res) :: s.results }
    end else { s with st = st' } in
  let rec go (s : mqstate) : unit =
    let key = mq_key s in
    if Hashtbl.mem seen key || !budget <= 0 then () else begin
      Hashtbl.add seen key (); decr budget;
      let moved = ref false in
      (* 1. the main thread releases its next operation; it waits for a call that had completed *)
      if s.pos < k then begin
        let prev_ok =
          s.pos = 0 ||
          (match ops.(s.pos - 1) with
           | OCall (_, _, _) -> doneflags.[s.pos - 1] <> 'c' || List.mem_assoc (s.pos - 1) s.results
           | _ -> true) in
        if prev_ok then begin
          match ops.(s.pos) with
          | ONop -> moved := true; go { s with pos = s.pos + 1 }
          | OPush v ->
              let ws = match blocked_idx s.st with [] -> [None] | l -> List.map (fun i -> Some i) l in
              List.iter (fun w -> match step s.st (Model.Push (nat_of_int v, nat_opt w)) with
                  | Some st' -> moved := true; go { s with st = st'; pos = s.pos + 1 } | None -> ()) ws
          | OUnblock ->
              let ws = match blocked_idx s.st with [] -> [None] | l -> List.map (fun i -> Some i) l in
              List.iter (fun w -> match step s.st (Model.Unblock (nat_opt w)) with
                  | Some st' -> moved := true; go { s with st = st'; pos = s.pos + 1 } | None -> ()) ws
          | OCall (t, _, _) ->
              let pending = Array.copy s.pending in
              pending.(t) <- pending.(t) @ [s.pos];
              moved := true; go { s with pending; pos = s.pos + 1 }
        end
      end;
      (* 2. an idle receiver starts its next released call *)
      for t = 0 to nrecv - 1 do
        if s.incall.(t) < 0 then
          match s.pending.(t) with
          | i :: rest ->
              let l = (match ops.(i) with
                  | OCall (_, "pop", _) -> Model.CallPop (nat_of_int t)
                  | OCall (_, "try", _) -> Model.CallTry (nat_of_int t)
                  | OCall (_, _, ms) -> Model.CallTimed (nat_of_int t, nat_of_int (10 * ms))
                  | _ -> failwith "op") in
              (match step s.st l with
               | Some st' ->
                   let pending = Array.copy s.pending in pending.(t) <- rest;
                   let incall = Array.copy s.incall in incall.(t) <- i;
                   moved := true; go (after_recv { s with pending; incall } t st')
               | None -> ())
          | [] -> ()
      done;
      (* 3. woken receivers resume; timed waits whose deadline has come time out *)
      for t = 0 to nrecv - 1 do
        (match step s.st (Model.Resume (nat_of_int t)) with
         | Some st' -> moved := true; go (after_recv s t st') | None -> ());
        (match step s.st (Model.Timeout (nat_of_int t)) with
         | Some st' -> moved := true; go { s with st = st' } | None -> ())
      done;
      (* 4. time advances to an instant at which behaviour can change: a deadline, or the point from
            which a timed receiver has less than one millisecond left *)
      let now = nat_to_int s.st.Model.now in
      let cands = List.concat (List.map (fun r -> match r with
          | Model.TBlocked (_, b, rem, tt) | Model.TWoken (_, _, b, rem, tt) ->
              let b = nat_to_int b and rem = nat_to_int rem and tt = nat_to_int tt in
              [b + tt; b + rem - nat_to_int Model.mq_MS + 1]
          | _ -> []) s.st.Model.rs) in
      List.iter (fun c -> if c > now then
                    match step s.st (Model.Tick (nat_of_int (c - now))) with
                    | Some st' -> moved := true; go { s with st = st' } | None -> ())
        (List.sort_uniq compare cands);
      (* 5. final: everything released and started, nobody awake or inside a timed wait *)
      (* (a receiver stuck in a blocking call never starts the calls queued behind it) *)
      let quiet = s.pos = k &&
                  List.for_all (fun t -> s.pending.(t) = [] || List.nth s.st.Model.rs t = Model.PopBlocked)
                    (List.init nrecv (fun i -> i)) &&
                  List.for_all (fun r -> r = Model.Idle || r = Model.PopBlocked) s.st.Model.rs in
      if quiet then begin
        let blocked = List.filter (fun t -> List.nth s.st.Model.rs t = Model.PopBlocked) (List.init nrecv (fun i -> i)) in
        let o = Printf.sprintf "res=%s blocked=%s q=%s"
            (if s.results = [] then "-" else
               String.concat ";" (List.map (fun (i, r) -> Printf.sprintf "%d:%s" i r) (List.sort compare s.results)))
            (if blocked = [] then "-" else String.concat "," (List.map string_of_int blocked))
            (q_str s.st.Model.q) in
        Hashtbl.replace outcomes o ()
      end;
      ignore !moved
    end in
  go { st = Model.mq_init (nat_of_int nrecv); pos = 0; pending = Array.make nrecv []; incall = Array.make nrecv (-1); results = [] };
  let l = Hashtbl.fold (fun o () acc -> o :: acc) outcomes [] in
  let l = List.sort compare l in
  if !budget <= 0 then "BUDGET-EXHAUSTED" :: l else l

(* mqx <a|f> <nrecv> <ops> <doneflags> *)
let mqx_case (f : string array) : string =
  let fixed = f.(1) <> "a" in
  let nrecv = int_of_string f.(2) in
  let ops = parse_mq_ops f.(3) in
  let l = explore_mq fixed nrecv ops f.(4) in
  Printf.sprintf "n=%d %s" (List.length l) (String.concat " | " l)

(* ---------------- task pool ---------------- *)
type tpop = TDispatch of int | TRel | TObs | TNop

let parse_tp_ops (s : string) : tpop array =
  Array.of_list (List.map (fun o ->
      if o = "rel" then TRel else if o = "o" then TObs
      else if o.[0] = 'd' then TDispatch (int_of_string (String.sub o 1 (String.length o - 1)))
      else TNop) (String.split_on_char ',' s))

let ws_str (w : Model.nat Model.wstate) : string =
  match w with
  | Model.Spawned None -> "S" | Model.Spawned (Some t) -> "S" ^ string_of_int (nat_to_int t)
  | Model.AtLock -> "L" | Model.Blocked (b, _) -> if b then "Bt" else "Bu"
  | Model.Woken b -> if b then "Wr" else "Wt" | Model.Running t -> "R" ^ string_of_int (nat_to_int t)
  | Model.Exiting -> "X" | Model.Exited -> "E"

type tpstate = {
  ts : Model.nat Model.st0;
  tpos : int;            (* next script operation *)
  left : int;            (* dispatches left in the current d<k> *)
  nextid : int;
  released : int list;   (* task ids that may finish *)
  obs : string list;     (* observations so far, latest first *)
}

let explore_tp (fixed : bool) (ops : tpop array) : string list =
  let k = Array.length ops in
  let seen = Hashtbl.create 4096 in
  let outcomes = Hashtbl.create 64 in
  let budget = ref 250000 in
  let step s l = Model.tp_step fixed s l in
  let key (s : tpstate) =
    Printf.sprintf "%s|%d|%d|%s|%d|%d|%d|%s|%s"
      (String.concat "," (List.map (fun t -> string_of_int (nat_to_int t)) s.ts.Model.todo))
      (nat_to_int s.ts.Model.waiting) (nat_to_int s.ts.Model.active)
      (String.concat "," (List.map ws_str s.ts.Model.ws)) s.tpos s.left s.nextid
      (String.concat "," (List.map string_of_int s.released)) (String.concat "" s.obs) in
  let rec go (s : tpstate) : unit =
    let kk = key s in
    if Hashtbl.mem seen kk || !budget <= 0 then () else begin
      Hashtbl.add seen kk (); decr budget;
      let nw = List.length s.ts.Model.ws in
      (* internal steps of the workers *)
      let internal = ref false in
      for w = 0 to nw - 1 do
        let wn = nat_of_int w in
        List.iter (fun l -> match step s.ts l with
            | Some ts' -> internal := true; go { s with ts = ts' } | None -> ())
          [Model.Start wn; Model.Lock wn; Model.Resume0 wn; Model.Exit wn];
        (match List.nth s.ts.Model.ws w with
         | Model.Running t when List.mem (nat_to_int t) s.released ->
             (match step s.ts (Model.TaskDone wn) with
              | Some ts' -> internal := true; go { s with ts = ts' } | None -> ())
         | _ -> ())
      done;
      (* the script *)
      if s.left > 0 then begin
        (* one dispatch; the waiter notify_one picks is any registered waiter that is blocked *)
        let blocked = List.filter (fun i -> Model.is_blocked0 (List.nth s.ts.Model.ws i)) (List.init nw (fun i -> i)) in
        let ws = None :: List.map (fun i -> Some i) blocked in
        List.iter (fun w -> match step s.ts (Model.Dispatch (nat_of_int s.nextid, nat_opt w)) with
            | Some ts' -> go { s with ts = ts'; left = s.left - 1; nextid = s.nextid + 1 } | None -> ()) ws
      end else if s.tpos < k then begin
        match ops.(s.tpos) with
        | TNop -> go { s with tpos = s.tpos + 1 }
        | TDispatch n -> go { s with tpos = s.tpos + 1; left = n }
        | TRel ->
            let running = List.concat (List.map (function Model.Running t -> [nat_to_int t] | _ -> []) s.ts.Model.ws) in
            go { s with tpos = s.tpos + 1; released = List.sort_uniq compare (running @ s.released) }
        | TObs ->
            if not !internal then
              go { s with tpos = s.tpos + 1;
                          obs = Printf.sprintf "[s=%d t=%d w=%d a=%d]" (List.length s.ts.Model.started)
                              (List.length s.ts.Model.todo) (nat_to_int s.ts.Model.waiting) (nat_to_int s.ts.Model.active) :: s.obs }
      end else
        Hashtbl.replace outcomes (String.concat "" (List.rev s.obs)) ()
    end in
  go { ts = Model.tp_init; tpos = 0; left = 0; nextid = 0; released = []; obs = [] };
  let l = List.sort compare (Hashtbl.fold (fun o () acc -> o :: acc) outcomes []) in
  if !budget <= 0 then "BUDGET-EXHAUSTED" :: l else l

(* tpx <a|f> <ops> *)
let tpx_case (f : string array) : string =
  let ops = parse_tp_ops f.(2) in
  let total = Array.fold_left (fun a o -> match o with TDispatch n -> a + n | _ -> a) 0 ops in
  let l = if total > 9 then ["BUDGET-EXHAUSTED"] (* too many interleavings to enumerate: judged by the oracle only *)
    else explore_tp (f.(1) <> "a") ops in
  Printf.sprintf "n=%d %s" (List.length l) (String.concat " | " l)

(* bs <u|t> <N> <handlers>: N connections accepted back to back = N dispatches; the model is run under
   the eager schedule (after every dispatch all enabled worker steps are taken, lowest worker first);
   by c08_queued_task_has_awake_worker every schedule of the repaired pool starts all N *)
let bs_case (f : string array) : string =
  let fixed = not (Array.exists (fun x -> x = "cfg=a") f) in
  let n = int_of_string f.(2) in
  let s = ref Model.tp_init in
  let settle () =
    let progress = ref true in
    while !progress do
      progress := false;
      let nw = List.length !s.Model.ws in
      for w = 0 to nw - 1 do
        let wn = nat_of_int w in
        List.iter (fun l -> match Model.tp_step fixed !s l with Some s' -> s := s'; progress := true | None -> ())
          [Model.Start wn; Model.Lock wn; Model.Resume0 wn]
      done
    done in
  settle ();
  for i = 0 to n - 1 do
    let nw = List.length !s.Model.ws in
    let blocked = List.filter (fun i -> Model.is_blocked0 (List.nth !s.Model.ws i)) (List.init nw (fun i -> i)) in
    let w = match blocked with [] -> None | b :: _ -> Some b in
    (match Model.tp_step fixed !s (Model.Dispatch (nat_of_int i, nat_opt w)) with
     | Some s' -> s := s'
     | None -> (match Model.tp_step fixed !s (Model.Dispatch (nat_of_int i, None)) with Some s' -> s := s' | None -> ()));
    if fixed then settle ()
  done;
  settle ();
  Printf.sprintf "answered=%d of=%d wrong=0 delivered=%d" (List.length !s.Model.started) n (List.length !s.Model.started)

(* ---------------- shutdown (C20): sd <u|t> <ops> ---------------- *)
(* the accept thread is run eagerly (it takes every step it can after each script operation) *)
let sd_case (f : string array) : string =
  let kind = f.(1) in
  let s = ref Model.sd_init in
  let dostep l = match Model.sd_step !s l with Some s' -> s := s'; true | None -> false in
  let eager () =
    let progress = ref true in
    while !progress do
      progress := false;
      if dostep Model.LoopTest then progress := true;
      (match !s.Model.backlog with
       | c :: _ -> if dostep (Model.AcceptClient c) then progress := true
       | [] -> ());
      if dostep Model.AcceptWake then progress := true
    done in
  eager ();
  let held = ref [] and handed = ref [] and out = ref [] in
  List.iter (fun op ->
      let arg () = String.sub op 1 (String.length op - 1) in
      if op = "r" then begin
        (* the oldest accepted client not yet handed out *)
        let acc = List.concat (List.map (function Some c -> [nat_to_int c] | None -> []) !s.Model.accepted) in
        (match List.filter (fun c -> not (List.mem c !handed)) acc with
         | c :: _ -> held := !held @ [c]; handed := c :: !handed
         | [] -> out := "r=none" :: !out)
      end
      else if op = "d" then begin ignore (dostep Model.ServerDrop); eager () end
      else if op = "k" then ()
      else if op = "n" then out := "thr=ok" :: !out
      else if op.[0] = 'y' then
        (* only the first configured address is ever bound: the second one refuses, before and after the drop *)
        out := (Printf.sprintf "y%s=refused" (arg ())) :: !out
      else if op = "l" then
        out := (Printf.sprintf "l=%s" (if !s.Model.listening then "listening" else "closed")) :: !out
      else if op = "p" then
        out := (Printf.sprintf "p=%s" (if kind = "t" || kind = "2" || kind = "m" then "na" else if !s.Model.path_removed then "gone" else "there")) :: !out
      else if op = "a" then begin
        out := (Printf.sprintf "a=%s" (if !held = [] then "-" else
                                         String.concat "," (List.map (fun c -> Printf.sprintf "%d:200" c) !held))) :: !out;
        held := []
      end
      else if op.[0] = 'c' || op.[0] = 'C' then begin        (* C: the same client with a second, pipelined request *)
        let k = int_of_string (arg ()) in
        ignore (dostep (Model.ClientConnect (nat_of_int k))); eager ();
        if List.exists (fun c -> nat_to_int c = k) !s.Model.refused then out := (Printf.sprintf "c%d=failed" k) :: !out
      end
      else if op.[0] = 'x' then begin
        let k = int_of_string (arg ()) in
        ignore (dostep (Model.ClientConnect (nat_of_int k))); eager ();
        let r = if List.exists (fun c -> nat_to_int c = k) !s.Model.refused then "refused"
          else if List.exists (function Some c -> nat_to_int c = k | None -> false) !s.Model.accepted then "served"
          else "connected" in
        out := (Printf.sprintf "x%d=%s" k r) :: !out
      end) (String.split_on_char ',' f.(2));
  if !out = [] then "-" else String.concat " " (List.rev !out)

(* ---------------- the sending side closes exactly at the last hand-off (C12, pl cases with noearly=1) ---------------- *)
(* n writers are created, the connection thread ends (the client half-closed), then the threads answer
   in the given order; a thread whose writer has not got its turn waits. Returns
   (closed before the last writer was dropped, closed at the end). *)
let close_run (n : int) (order : int list) : bool * bool =
  let s = ref Model.cc_init in
  let st l = match Model.cc_step !s l with Some s' -> s := s'; true | None -> false in
  for _ = 1 to n do ignore (st (Model.CL Model.New)) done;
  ignore (st Model.BuilderDrop);
  let pending = ref (order @ List.filter (fun i -> not (List.mem i order)) (List.init n (fun i -> i))) in
  let early = ref false in
  let progress = ref true in
  while !pending <> [] && !progress do
    progress := false;
    (* the first pending thread (in release order) whose writer has its turn *)
    (match List.filter (fun i -> match Model.cc_step !s (Model.CL (Model.Write (nat_of_int i, [nat_of_int i]))) with Some _ -> true | None -> false) !pending with
     | i :: _ ->
         ignore (st (Model.CL (Model.Write (nat_of_int i, [nat_of_int i]))));
         if Model.cc_closed !s then early := true;
         ignore (st (Model.CL (Model.DropW (nat_of_int i))));
         pending := List.filter (fun j -> j <> i) !pending;
         if !pending <> [] && Model.cc_closed !s then early := true;
         progress := true
     | [] -> ())
  done;
  (!early, Model.cc_closed !s)

(* ---------------- lock-step replay of a recorded trace of the real queue (mqs) ---------------- *)
(* mqr <a|f> <nrecv> <labels> <res> <q> <blocked> *)
let mqr_case (f : string array) : string =
  let fixed = f.(1) <> "a" in
  let nrecv = int_of_string f.(2) in
  let labels = if f.(3) = "-" then [] else String.split_on_char ';' f.(3) in
  let s = ref (Model.mq_init (nat_of_int nrecv)) in
  let results = Array.make nrecv [] in
  let fail = ref None in
  let step_recv t l =
    let before = !s in
    match Model.mq_step_replay fixed before l with
    | None -> false
    | Some s' ->
        let was_in = List.nth before.Model.rs t <> Model.Idle in
        let now_idle = List.nth s'.Model.rs t = Model.Idle in
        let is_call = (match l with Model.CallPop _ | Model.CallTry _ | Model.CallTimed _ -> true | _ -> false) in
        if now_idle && (was_in || is_call) then begin
          let g = List.length before.Model.got and g' = List.length s'.Model.got in
          let r = if g' > g then "v" ^ string_of_int (nat_to_int (List.nth s'.Model.got (g' - 1))) else "N" in
          results.(t) <- results.(t) @ [r]
        end;
        s := s'; true in
  List.iteri (fun k lab ->
      if !fail = None then begin
        let n = String.length lab in
        let num from = int_of_string (String.sub lab from (n - from)) in
        let wopt x = if x = "-" then None else Some (nat_of_int (int_of_string x)) in
        let ok =
          if n >= 2 && String.sub lab 0 2 = "TK" then
            (match Model.mq_step_replay fixed !s (Model.Tick (nat_of_int (num 2))) with Some s' -> s := s'; true | None -> false)
          else if n >= 2 && String.sub lab 0 2 = "TO" then
            (match Model.mq_step_replay fixed !s (Model.Timeout (nat_of_int (num 2))) with Some s' -> s := s'; true | None -> false)
          else if n >= 2 && String.sub lab 0 2 = "CP" then step_recv (num 2) (Model.CallPop (nat_of_int (num 2)))
          else if n >= 2 && String.sub lab 0 2 = "CT" then step_recv (num 2) (Model.CallTry (nat_of_int (num 2)))
          else if n >= 2 && String.sub lab 0 2 = "CD" then begin
            let (a, b) = split2 ':' (String.sub lab 2 (n - 2)) in
            step_recv (int_of_string a) (Model.CallTimed (nat_of_int (int_of_string a), nat_of_int (int_of_string b)))
          end
          else if lab.[0] = 'R' then step_recv (num 1) (Model.Resume (nat_of_int (num 1)))
          else if lab.[0] = 'P' then begin
            let (v, w) = split2 ':' (String.sub lab 1 (n - 1)) in
            (match Model.mq_step_replay fixed !s (Model.Push (nat_of_int (int_of_string v), wopt w)) with Some s' -> s := s'; true | None -> false)
          end
          else if lab.[0] = 'U' then begin
            let (_, w) = split2 ':' lab in
            (match Model.mq_step_replay fixed !s (Model.Unblock (wopt w)) with Some s' -> s := s'; true | None -> false)
          end
          else false in
        if not ok then fail := Some (Printf.sprintf "label %d (%s) is not enabled in the model" k lab)
      end) labels;
  match !fail with
  | Some why -> "LOCKSTEP-FAIL " ^ why
  | None ->
      (* final comparison: per-receiver results, queue content, who is blocked *)
      let impl_res = Array.make nrecv [] in
      if f.(4) <> "-" then
        List.iter (fun x -> match String.split_on_char ':' x with
            | [k; _; r] when k <> "p" -> let k = int_of_string k in impl_res.(k) <- impl_res.(k) @ [r]
            | _ -> ()) (String.split_on_char ',' f.(4));
      let bad = ref None in
      for t = 0 to nrecv - 1 do
        if !bad = None && impl_res.(t) <> results.(t) then
          bad := Some (Printf.sprintf "receiver %d returned [%s] in the implementation, [%s] in the model" t
                         (String.concat "," impl_res.(t)) (String.concat "," results.(t)))
      done;
      if !bad = None && q_str !s.Model.q <> f.(5) then
        bad := Some (Printf.sprintf "queue is %s in the implementation, %s in the model" f.(5) (q_str !s.Model.q));
      let blocked = List.filter (fun t -> Model.is_blocked (List.nth !s.Model.rs t)) (List.init nrecv (fun i -> i)) in
      let bs = if blocked = [] then "-" else String.concat "," (List.map string_of_int blocked) in
      if !bad = None && bs <> f.(6) then
        bad := Some (Printf.sprintf "blocked receivers %s in the implementation, %s in the model" f.(6) bs);
      (match !bad with
       | Some why -> "LOCKSTEP-FAIL at the end: " ^ why
       | None -> Printf.sprintf "LOCKSTEP-OK %d labels" (List.length labels))

(* ---------------- the receive calls of Server issued one after the other (su) ---------------- *)
(* su <u|t> <ops>: the extracted `su_run` of Conc/ServerApi.v (one receiver of the queue model; every call runs to its
   return before the next operation; proved equal to the FIFO reading `su_spec` for every script: Props/C17Api.v).
   Model time unit = 0.1 ms. Only parsing and printing happen here. *)
let su_case (f : string array) : string =
  let ops = List.filter (fun o -> o <> "") (String.split_on_char ',' f.(2)) in
  let arg o = int_of_string (String.sub o 1 (String.length o - 1)) in
  let mops = List.map (fun o ->
      if o = "u" then Model.SuU
      else if o = "y" then Model.SuY
      else if o = "r" || o = "i" then Model.SuR
      else if o.[0] = 'q' then Model.SuQ (nat_of_int (arg o))
      else if o.[0] = 't' then Model.SuT (nat_of_int (10 * arg o))
      else failwith ("su op " ^ o)) ops in
  match Model.su_run mops with
  | None -> "MODEL-STUCK"
  | Some res ->
      let recvs = List.filter (fun o -> o = "y" || o = "r" || o = "i" || o.[0] = 't') ops in
      if List.length recvs <> List.length res then "MODEL-RESULT-COUNT" else
      let one o r =
        let v = match r with
          | Model.SrVal k -> Printf.sprintf "R%d" (nat_to_int k)
          | Model.SrNone _ -> "N" | Model.SrErr -> "E" | Model.SrHang -> "hang" in
        if o.[0] = 't' then
          Printf.sprintf "%s:%s:%s" o v (match r with Model.SrNone false -> "full" | _ -> "fast")
        else Printf.sprintf "%s:%s" o v in
      let out = List.map2 one recvs res in
      if out = [] then "-" else String.concat " " out

(* ---------------- lock-step replay of a recorded trace of the real writer chain (sws) ---------------- *)
(* swr <labels> <stream hex> <pend>      labels: N | W<i>:<hex> | F<i> | D<i>     pend: name/op,.. (op = w<i>:<hex> | f<i> | d<i>)
   Every recorded label must be enabled in Conc/SeqWriter.v (fixed = true: the repaired tree); at the end the
   stream of the model is the sink's content and every operation the implementation is still blocked in is
   disabled in the model too (the code blocks exactly where the model does). *)
let swr_case (f : string array) : string =
  let labels = if f.(1) = "-" then [] else String.split_on_char ';' f.(1) in
  let nats_of_hex h = let b = Conv.unhex_string h in List.init (String.length b) (fun i -> nat_of_int (Char.code b.[i])) in
  let lab_of (l : string) : Model.nat Model.label1 option =
    let n = String.length l in
    let rest = if n > 1 then String.sub l 1 (n - 1) else "" in
    try
      match l.[0] with
      | 'N' when n = 1 -> Some Model.New
      | 'W' | 'w' -> let (i, d) = split2 ':' rest in Some (Model.Write (nat_of_int (int_of_string i), nats_of_hex d))
      | 'F' | 'f' -> Some (Model.Flush (nat_of_int (int_of_string rest)))
      | 'D' | 'd' -> Some (Model.DropW (nat_of_int (int_of_string rest)))
      | _ -> None
    with _ -> None in
  let s = ref Model.sw_init in
  let fail = ref None in
  List.iteri (fun k l ->
      if !fail = None then
        match lab_of l with
        | None -> fail := Some (Printf.sprintf "label %d (%s) is not a label of the model" k l)
        | Some lab ->
            (match Model.sw_step true !s lab with
             | Some s' -> s := s'
             | None -> fail := Some (Printf.sprintf "label %d (%s) is not enabled in the model" k l))) labels;
  match !fail with
  | Some why -> "LOCKSTEP-FAIL " ^ why
  | None ->
      let hex_of ns = String.concat "" (List.map (fun x -> Printf.sprintf "%02x" (nat_to_int x)) ns) in
      let ms = hex_of !s.Model.stream0 in
      let is = if f.(2) = "-" then "" else f.(2) in
      if ms <> is then Printf.sprintf "LOCKSTEP-FAIL at the end: the sink holds %s, the model's stream is %s" is ms
      else begin
        let bad = ref None in
        if f.(3) <> "-" then
          List.iter (fun x ->
              let (name, op) = split2 '/' x in
              match lab_of op with
              | Some lab ->
                  (match Model.sw_step true !s lab with
                   | Some _ when !bad = None ->
                       bad := Some (Printf.sprintf "%s never completed %s, which is enabled in the model (the chain stalled)" name op)
                   | _ -> ())
              | None -> ()) (String.split_on_char ',' f.(3));
        (* f.(4) = live flag of the generator, f.(5) = n|prog|prog|..: the script itself. The extracted checker
           `sw_system_ok_b` (sound for system_ok: Props/C06Check.v) decides whether the script is a well-ordered system;
           such a system can never get stuck (c06_checked_scripts_never_stuck): nothing may be left blocked *)
        if !bad = None && Array.length f > 5 then begin
          match String.split_on_char '|' f.(5) with
          | n :: ps ->
              let prog p = List.filter_map lab_of (List.filter (fun o -> o <> "") (String.split_on_char ',' p)) in
              let ok = Model.sw_system_ok_b (nat_of_int (int_of_string n)) (List.map prog ps) in
              if f.(4) = "1" && not ok then
                bad := Some "the generator marks this script as one that can always make progress, the checker system_ok_b rejects it"
              else if ok && Array.length f > 6 && f.(6) = "1" && f.(3) <> "-" then
                (* f.(6) = 1: the connection thread starts every other thread before it works on a writer of its own, so
                   that every program of the system can really move (the premise of the theorem) *)
                bad := Some (Printf.sprintf "a well-ordered system (system_ok_b) is blocked for ever at %s" f.(3))
          | [] -> ()
        end;
        match !bad with
        | Some why -> "LOCKSTEP-FAIL at the end: " ^ why
        | None -> Printf.sprintf "LOCKSTEP-OK %d labels" (List.length labels)
      end

(* ---------------- lock-step replay of a recorded trace of the real task pool (tps) ---------------- *)
(* tpr <a|f> <labels> <started> *)
let tpr_case (f : string array) : string =
  let fixed = f.(1) <> "a" in
  let labels = if f.(2) = "-" then [] else String.split_on_char ';' f.(2) in
  let s = ref Model.tp_init in
  let fail = ref None in
  let dropped = ref false in
  List.iteri (fun k lab ->
      if !fail = None then begin
        let n = String.length lab in
        let pre p = n >= String.length p && String.sub lab 0 (String.length p) = p in
        let num from = int_of_string (String.sub lab from (n - from)) in
        let st l = (match Model.tp_step_replay fixed !s l with Some s' -> s := s'; true | None -> false) in
        let ok =
          if pre "OBS" then begin
            if !dropped then true else
            match String.split_on_char '/' (String.sub lab 3 (n - 3)) with
            | [t; w; a] ->
                int_of_string t = List.length !s.Model.todo && int_of_string w = int_of_nat !s.Model.waiting
                && int_of_string a = int_of_nat !s.Model.active
            | _ -> false
          end
          else if pre "TK" then st (Model.Tick0 (nat_of_int (num 2)))
          else if pre "TO" then st (Model.Timeout0 (nat_of_int (num 2)))
          else if pre "TD" then st (Model.TaskDone (nat_of_int (num 2)))
          else if pre "PD" then (dropped := true; st Model.PoolDrop)
          else if pre "D" then begin
            let (tk, w) = split2 ':' (String.sub lab 1 (n - 1)) in
            st (Model.Dispatch (nat_of_int (int_of_string tk), if w = "-" then None else Some (nat_of_int (int_of_string w))))
          end
          else if pre "S" then st (Model.Start (nat_of_int (num 1)))
          else if pre "L" then st (Model.Lock (nat_of_int (num 1)))
          else if pre "R" then st (Model.Resume0 (nat_of_int (num 1)))
          else if pre "X" then st (Model.Exit (nat_of_int (num 1)))
          else false in
        if not ok then
          fail := Some (Printf.sprintf "label %d (%s) is not enabled in the model / disagrees with its state (todo=%d waiting=%d active=%d)"
                          k lab (List.length !s.Model.todo) (int_of_nat !s.Model.waiting) (int_of_nat !s.Model.active))
      end) labels;
  match !fail with
  | Some why -> "LOCKSTEP-FAIL " ^ why
  | None ->
      let ms = List.sort compare (List.map int_of_nat !s.Model.started) in
      let is = List.sort compare (if f.(3) = "-" then [] else List.map int_of_string (String.split_on_char ',' f.(3))) in
      if ms <> is then
        Printf.sprintf "LOCKSTEP-FAIL at the end: tasks started [%s] in the implementation, [%s] in the model"
          (String.concat "," (List.map string_of_int is)) (String.concat "," (List.map string_of_int ms))
      else Printf.sprintf "LOCKSTEP-OK %d labels" (List.length labels)
