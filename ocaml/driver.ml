(* driver.ml — runs the extracted model on case lines (same line format as the Rust harness). *)
open Conv

let canon_date = bytes_of_string "Thu, 01 Jan 1970 00:00:00 GMT"

(* rp <ctor> <status> <headers> <body> <len> <ops> <vmaj.vmin> <req headers> <head> <upgrade> [pieces] *)
let op_of (o : string) : Model.rop =
  let rest = String.sub o 1 (String.length o - 1) in
  match o.[0] with
  | 'H' | 'A' -> Model.WithHeader (header_of rest)     (* A: add_header through &mut, the same operation *)
  | 'S' -> Model.WithStatus (n_of_string rest)
  | 'T' -> Model.WithThreshold (n_of_string rest)
  | 'D' -> let (d, l) = split2 ':' rest in Model.WithData (unhex d, opt_n l)
  | _ -> failwith "op"

(* B = boxed(): the same response behind a trait object; identity in the model *)
let rp_ops (f : string array) : Model.rop list = List.map op_of (List.filter (fun o -> o <> "B") (split_list ';' f.(6)))

let rp_build (f : string array) : Model.response =
  let ctor = f.(1) and st = n_of_string f.(2) and hs = headers_of f.(3) and body = unhex f.(4)
  and len = opt_n f.(5) in
  let r0 = match ctor with
    | "new" | "newch" -> Model.new_response st hs body len
    | "data" | "file" -> Model.from_data body
    | "string" -> Model.from_string body
    | "empty" | "emptyc" -> Model.empty_response st
    | _ -> failwith "ctor" in
  Model.build r0 (rp_ops f)

(* what the constructor was given, for the spec side: (declared length, headers) *)
let rp_ctor_spec (f : string array) : Model.n option * Model.header list =
  let body = unhex_string f.(4) in
  match f.(1) with
  | "new" | "newch" -> (opt_n f.(5), headers_of f.(3))
  | "data" | "file" -> (Some (n_of_int (String.length body)), [])
  | "string" -> (Some (n_of_int (String.length body)),
                 [ { Model.hname = bytes_of_string "Content-Type";
                     Model.hvalue = bytes_of_string "text/plain; charset=UTF-8" } ])
  | "empty" | "emptyc" -> (Some (n_of_int 0), [])
  | _ -> failwith "ctor"

let obs_field (o : string array) (key : string) : string =
  let k = key ^ "=" in
  let n = String.length k in
  let r = ref "" in
  Array.iter (fun x -> if String.length x >= n && String.sub x 0 n = k then r := String.sub x n (String.length x - n)) o;
  !r

let rp_case (f : string array) : string =
  let r = rp_build f in
  let (a, b) = split2 '.' f.(7) in
  let ver = (n_of_string a, n_of_string b) in
  let rh = headers_of f.(8) in
  let head = f.(9) = "1" in
  let up = if f.(10) = "~" then None else Some (unhex f.(10)) in
  match Model.raw_print canon_date r ver rh head up with
  | None -> "U"
  | Some out ->
      Printf.sprintf "%s dl=%s nh=%d" (hex out) (string_of_opt_n r.Model.data_length)
        (List.length r.Model.rheaders)

(* ---- cv: one conversation ---- *)
let parse_action (a : string) : Model.action =
  let (r, f) = split2 '/' a in
  let reads = List.map (fun x ->
      let (m, n) = split2 '@' x in
      (* n*k: a vectored read with k slices; the default read_vectored fills the first slice only *)
      let n = (match String.index_opt n '*' with Some i -> String.sub n 0 i | None -> n) in
      ((if m = "*" then Model.aLL else n_of_string m), nat_of_int (int_of_string n)))
      (split_list ',' r) in
  let rest = String.sub f 1 (String.length f - 1) in
  let fin = match f.[0] with
    | 'R' -> (match String.split_on_char ':' rest with
              | [st; body; d] -> Model.FRespond (n_of_string st, unhex body, d = "1")
              | _ -> failwith "R")
    | 'D' | 'P' -> Model.FDrop
    | 'W' | 'X' | 'Y' | 'F' | 'V' -> Model.FWriter (unhex rest)
    | 'E' -> Model.FRespond (n_of_string "200", unhex rest, false)   (* the body source fails after these bytes: an undeclared-length 200 with them *)
    | 'Z' | 'Q' -> Model.FWriter []
    | 'U' -> Model.FUpgrade (unhex rest)
    | _ -> failwith "finish" in
  { Model.a_reads = reads; Model.a_finish = fin }

let end_str (e : Model.read_end) = match e with
  | Model.EndCount -> "count" | Model.EndEof -> "eof" | Model.EndErr -> "err" | Model.EndBlock -> "block"

let req_str (d : Model.delivered) : string =
  let (a, b) = d.Model.d_ver in
  Printf.sprintf "[m=%s,u=%s,v=%s.%s,h=%s,bl=%s,rd=%s,e=%s]"
    (hex d.Model.d_method) (hex d.Model.d_url) (string_of_n a) (string_of_n b)
    (match d.Model.d_headers with
     | [] -> "-"
     | hs -> String.concat "+" (List.map (fun h -> hex h.Model.hname ^ ":" ^ hex h.Model.hvalue) hs))
    (string_of_opt_n d.Model.d_body_length) (hex d.Model.d_read) (end_str d.Model.d_end)

let cv_outcome (f : string array) : Model.outcome =
  let eof = f.(2) = "1" in
  let cfg = if f.(3) = "a" then Model.asfound else Model.fixed in
  let input = unhex f.(4) in
  let acts = List.map parse_action (String.split_on_char ';' f.(5)) in
  let dflt = List.nth acts (List.length acts - 1) in
  Model.serve cfg canon_date acts dflt input eof

let cv_case (f : string array) : string =
  (* inputs too long for the model's (quadratic) wire accumulation are judged by the oracle only *)
  if Array.exists (fun x -> x = "nomodel=1") f then "U" else
  let o = cv_outcome f in
  if not o.Model.o_modelled then "U"
  else
    let c14 = Array.exists (fun x -> x = "c14=1") f in
    Printf.sprintf "n=%d %swire=%s end=%s stray=0%s" (List.length o.Model.o_reqs)
      (String.concat "" (List.map (fun d -> req_str d ^ " ") o.Model.o_reqs))
      (hex o.Model.o_wire)
      (match o.Model.o_end with Model.CClosed -> "closed" | Model.COpen -> "open" | Model.CHang -> "hang")
      (if c14 then
         Printf.sprintf " maxalloc=%s panics=0"
           (Z.to_string (List.fold_left (fun a n -> Z.max a (z_of_n n)) Z.zero o.Model.o_allocs))
       else "")

(* ra <u|t> <stream> <action> *)
let ra_case (f : string array) : string =
  let cfg = if Array.exists (fun x -> x = "cfg=a") f then Model.asfound else Model.fixed in
  let st = { Model.sbytes = unhex f.(2); Model.seof = true } in
  let a = f.(3) in
  let act =
    if a = "all" || a = "allv" then Model.RlReadAll
    else if String.length a > 4 && String.sub a 0 4 = "part" then Model.RlReadPart (n_of_string (String.sub a 4 (String.length a - 4)))
    else Model.RlGoesAway in
  let (a1, a2) = Model.ahead_two cfg act st in
  let fmt l = if l = [] then "-" else String.concat "," (List.map hex l) in
  Printf.sprintf "a1=%s a2=%s" (fmt a1) (fmt a2)

let verdict (v : Model.verdict) : string =
  match v with
  | Model.VOk -> "OK"
  | Model.VSkip -> "SKIP"
  | Model.VFail why -> "FAIL " ^ string_of_bytes why

(* spec lines: `spec:<ID> <case fields> | <implementation observation fields>` *)
let split_bar (f : string array) : string array * string array =
  let l = Array.to_list f in
  let rec go acc = function
    | "|" :: rest -> (List.rev acc, rest)
    | x :: rest -> go (x :: acc) rest
    | [] -> (List.rev acc, []) in
  let (a, b) = go [] l in (Array.of_list a, Array.of_list b)

let rp_args (c : string array) =
  let r = rp_build c in
  let (a, b) = split2 '.' c.(7) in
  let ver = (n_of_string a, n_of_string b) in
  let rh = headers_of c.(8) in
  let head = c.(9) = "1" in
  let up = if c.(10) = "~" then None else Some (unhex c.(10)) in
  (r, ver, rh, head, up)

let spec_case (id : string) (f : string array) : string =
  let (c0, o) = split_bar f in
  let c = Array.sub c0 1 (Array.length c0 - 1) in
  if Array.length o = 0 then "FAIL no observation"
  else if o.(0) = "PANIC" then "FAIL implementation panicked: " ^ String.concat " " (Array.to_list o)
  else if o.(0) = "ERR" || o.(0) = "EXECUTOR-DIED" then "FAIL implementation error: " ^ String.concat " " (Array.to_list o)
  else if o.(0) = "SKIP" then "SKIP"
  else
    match id with
    | "C05" ->
        let (r, ver, rh, head, up) = rp_args c in
        verdict (Model.oracle_c05 r ver rh head up (unhex o.(0)))
    | "C04" ->
        let (r, _, _, head, _) = rp_args c in
        verdict (Model.oracle_c04 r head (unhex o.(0)))
    | "C19" ->
        let (_, _, _, head, up) = rp_args c in
        let (init, chs) = rp_ctor_spec c in
        verdict (Model.oracle_c19 canon_date init chs (rp_ops c) head up (unhex o.(0)) (opt_n (obs_field o "dl")))
    | _ -> "FAIL unknown spec " ^ id

let () =
  try
    while true do
      let line = input_line stdin in
      let f = Array.of_list (String.split_on_char ' ' line) in
      if Array.length f = 0 || f.(0) = "" || f.(0).[0] = '#' then print_endline "#"
      else
        let r =
          try
            match f.(0) with
            | "rp" -> rp_case f
            | "cv" -> cv_case f
            | "pl" ->
                let base = cv_case f in
                if Array.exists (fun x -> x = "noearly=1") f then begin
                  let ord = ref [] in
                  Array.iter (fun x -> if String.length x > 6 && String.sub x 0 6 = "order=" then
                                 ord := List.map int_of_string (String.split_on_char ',' (String.sub x 6 (String.length x - 6)))) f;
                  let n = List.length (String.split_on_char ';' f.(5)) in
                  let (early, closed) = Explore.close_run n !ord in
                  Printf.sprintf "%s early_eof=%d closed_at_end=%d" base (if early then 1 else 0) (if closed then 1 else 0)
                end else base
            | "ra" -> ra_case f
            | "mqx" -> Explore.mqx_case f
            | "mqr" -> Explore.mqr_case f
            | "tpr" -> Explore.tpr_case f
            | "swr" -> Explore.swr_case f
            | "su" -> Explore.su_case f
            | "tpx" -> Explore.tpx_case f
            | "tp" -> Explore.tpx_case [| "tpx"; (if Array.exists (fun x -> x = "cfg=a") f then "a" else "f"); f.(1) |]
            | "bs" -> Explore.bs_case f
            | "sd" -> Explore.sd_case f
            | "rv" ->
                (* c07_exactly_one_receiver / c07_log_is_got: whatever the receivers do, every queued request is
                   handed out exactly once; the model run: push everything, then pop until the queue is empty *)
                let n = int_of_string f.(2) * int_of_string f.(3) in
                let s = ref (Model.mq_init (nat_of_int 1)) in
                for v = 1 to n do
                  (match Model.mq_step true !s (Model.Push (nat_of_int v, None)) with Some s' -> s := s' | None -> ())
                done;
                for _ = 1 to n do
                  (match Model.mq_step true !s (Model.CallTry (nat_of_int 0)) with Some s' -> s := s' | None -> ())
                done;
                let got = List.map int_of_nat !s.Model.got in
                let dup = List.length got - List.length (List.sort_uniq compare got) in
                Printf.sprintf "total=%d dup=%d non200=0 missing=0" (List.length got) dup
            | x when String.length x > 5 && String.sub x 0 5 = "spec:" ->
                spec_case (String.sub x 5 (String.length x - 5)) f
            | x -> "UNKNOWN-EXECUTOR " ^ x
          with e -> "DRIVER-ERROR " ^ Printexc.to_string e in
        print_endline r
    done
  with End_of_file -> ()
