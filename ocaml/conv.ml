(* conv.ml — conversions between OCaml values and the extracted Coq datatypes (hand-written,
   part of the trusted base). *)
let to_ascii (c : char) : Model.ascii =
  let n = Char.code c in
  let b i = (n lsr i) land 1 = 1 in
  Model.Ascii (b 0, b 1, b 2, b 3, b 4, b 5, b 6, b 7)

let of_ascii (a : Model.ascii) : char =
  match a with
  | Model.Ascii (b0, b1, b2, b3, b4, b5, b6, b7) ->
      let v b i = if b then 1 lsl i else 0 in
      Char.chr (v b0 0 + v b1 1 + v b2 2 + v b3 3 + v b4 4 + v b5 5 + v b6 6 + v b7 7)

let bytes_of_string (s : string) : Model.ascii list = List.init (String.length s) (fun i -> to_ascii s.[i])

let string_of_bytes (l : Model.ascii list) : string =
  let b = Buffer.create 256 in
  List.iter (fun a -> Buffer.add_char b (of_ascii a)) l;
  Buffer.contents b

let hexdigits = "0123456789abcdef"

let hex_of_string (s : string) : string =
  if s = "" then "-"
  else begin
    let b = Buffer.create (2 * String.length s) in
    String.iter (fun c -> let n = Char.code c in
                  Buffer.add_char b hexdigits.[n lsr 4]; Buffer.add_char b hexdigits.[n land 15]) s;
    Buffer.contents b
  end

let hex (l : Model.ascii list) : string = hex_of_string (string_of_bytes l)

let hv c = match c with
  | '0' .. '9' -> Char.code c - 48
  | 'a' .. 'f' -> Char.code c - 87
  | 'A' .. 'F' -> Char.code c - 55
  | _ -> failwith "hex digit"

let unhex_string (s : string) : string =
  if s = "-" then ""
  else if String.length s > 0 && s.[0] = '@' then begin
    let n = int_of_string (String.sub s 1 (String.length s - 1)) in
    String.init n (fun i -> Char.chr (97 + (i mod 26)))
  end else
    String.init (String.length s / 2) (fun i -> Char.chr (16 * hv s.[2 * i] + hv s.[2 * i + 1]))

let unhex (s : string) : Model.ascii list = bytes_of_string (unhex_string s)

let rec pos_of_z (z : Z.t) : Model.positive =
  if Z.equal z Z.one then Model.XH
  else if Z.equal (Z.rem z (Z.of_int 2)) Z.zero then Model.XO (pos_of_z (Z.div z (Z.of_int 2)))
  else Model.XI (pos_of_z (Z.div z (Z.of_int 2)))

let n_of_z (z : Z.t) : Model.n = if Z.equal z Z.zero then Model.N0 else Model.Npos (pos_of_z z)
let n_of_string (s : string) : Model.n = n_of_z (Z.of_string s)
let n_of_int (i : int) : Model.n = n_of_z (Z.of_int i)

let rec z_of_pos (p : Model.positive) : Z.t =
  match p with
  | Model.XH -> Z.one
  | Model.XO q -> Z.mul (Z.of_int 2) (z_of_pos q)
  | Model.XI q -> Z.add Z.one (Z.mul (Z.of_int 2) (z_of_pos q))

let z_of_n (n : Model.n) : Z.t = match n with Model.N0 -> Z.zero | Model.Npos p -> z_of_pos p
let string_of_n (n : Model.n) : string = Z.to_string (z_of_n n)
let int_of_n (n : Model.n) : int = Z.to_int (z_of_n n)

let rec nat_of_int (i : int) : Model.nat = if i <= 0 then Model.O else Model.S (nat_of_int (i - 1))
let rec int_of_nat (n : Model.nat) : int = match n with Model.O -> 0 | Model.S m -> 1 + int_of_nat m

let opt_n (s : string) : Model.n option = if s = "-" then None else Some (n_of_string s)
let string_of_opt_n (o : Model.n option) : string = match o with None -> "-" | Some n -> string_of_n n

let split_list (sep : char) (s : string) : string list = if s = "-" then [] else String.split_on_char sep s

let split2 (sep : char) (s : string) : string * string =
  match String.index_opt s sep with
  | Some i -> (String.sub s 0 i, String.sub s (i + 1) (String.length s - i - 1))
  | None -> failwith ("split2: " ^ s)

let header_of (h : string) : Model.header =
  let (n, v) = split2 ':' h in { Model.hname = unhex n; Model.hvalue = unhex v }
let headers_of (s : string) : Model.header list = List.map header_of (split_list ',' s)
