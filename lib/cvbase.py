# lib/cvbase.py — shared pieces of the connection-level (cv) property modules.
import re
import annot
from obs import parse_obs

EXEC = "cv"


def hint(case, model_obs):
    """eof=0 cases: tell the harness how many response bytes the model expects, so that it can stop
    waiting as soon as they are there (it never learns what they are)."""
    f = case.split(" ")
    if f[2] == "0":
        o = parse_obs(model_obs)
        return case + " exp=%d" % len(o.wire)
    return case


def project(obs):
    return obs


def oracle(case, obs):
    return annot.check(case, obs)


def j(xs):
    xs = list(xs)
    return ",".join(xs) if xs else "-"
