# lib/convgen.py — abstract requests, their rendering with decorations, and conversation case lines.
# The abstract request is the ground truth the oracles compare the implementation against.
from common import hx

TOKCH = "abcdefghijklmnopqrstuvwxyzABCDEFGHIJKLMNOPQRSTUVWXYZ0123456789!#$%&'*+-.^_`|~"
STD_METHODS = ["GET", "HEAD", "POST", "PUT", "DELETE", "CONNECT", "OPTIONS", "TRACE", "PATCH"]
EXT_METHODS = ["get", "Get", "PROPFIND", "M-SEARCH", "x", "pOsT", "HEADx", "QUERY", "a!b", "head"]
SIZES = [0, 1, 2, 5, 100, 1023, 1024, 1025, 2047, 2048, 2049, 5000, 8191, 8192, 8193, 20000]
SMALL_SIZES = [0, 1, 5, 100, 1023, 1024]
HNAMES = ["Host", "host", "HOST", "Accept", "X-A", "x-b", "User-Agent", "Cookie", "X-Forwarded-For", "Accept-Encoding",
          "If-None-Match", "X_Under", "X.Dot", "a", "Content-Type", "Referer"]
HVALUES = ["x", "", "example.com", "a b  c", "a:b:c", "text/html, */*;q=0.8", "\"quoted, comma\"", "v" * 300, "v" * 1100,
           "1", "é".encode("latin-1").decode("latin-1") if False else "plain", "tab\there", "=?;", "gzip, deflate"]
OWS = ["", " ", "  ", "\t", " \t "]


def body_bytes(tag, n):
    """n body bytes that identify the request they belong to (never contain CR/LF)."""
    base = ("<%s>" % tag).encode()
    if n <= 0:
        return b""
    return (base * (n // len(base) + 1))[:n]


class AReq:
    """Abstract request: what was meant. render() produces the bytes; the fields are the ground truth."""

    def __init__(self, method="GET", target="/", version="1.1", headers=None, framing="none", body=b"",
                 chunks=None, chunk_style=0, expect=None, conn=None, ows=None):
        self.method = method
        self.target = target
        self.version = version
        self.headers = headers or []       # list of (name, value) — sent in this order, before framing headers
        self.framing = framing             # none | cl | chunked | both | upgrade
        self.body = body
        self.chunks = chunks               # list of chunk sizes (sum == len(body)) for chunked
        self.chunk_style = chunk_style     # 0 plain lower hex, 1 upper hex, 2 leading zeros, 3 extension
        self.expect = expect               # None | "100-continue" | other
        self.conn = conn                   # Connection header value or None
        self.ows = ows or {}               # index -> (before value, after value)
        self.extra_first = []              # framing-related headers as sent, for the oracle
        self.trailer = b"X-Trailer: v"     # used by chunk_style 4
        self.te_first = False              # framing "both": Transfer-Encoding before Content-Length
        self.te_value = "chunked"

    def all_headers(self):
        """(name, value) pairs as sent, in order."""
        hs = list(self.headers)
        if self.conn is not None:
            hs.append(("Connection", self.conn))
        if self.expect is not None:
            hs.append(("Expect", self.expect))
        if self.framing in ("cl", "both") and not self.te_first:
            hs.append(("Content-Length", str(len(self.body))))
        if self.framing in ("chunked", "both"):
            hs.append(("Transfer-Encoding", self.te_value))
        if self.framing == "both" and self.te_first:
            hs.append(("Content-Length", str(len(self.body))))
        if self.framing == "upgrade" and self.conn is None:
            hs.append(("Connection", "Upgrade"))
        return hs

    def render_body(self):
        if self.framing == "cl":
            return self.body
        if self.framing in ("chunked", "both"):
            out = b""
            pos = 0
            sizes = self.chunks if self.chunks is not None else ([len(self.body)] if self.body else [])
            for sz in sizes:
                if sz <= 0:
                    continue
                h = "%x" % sz
                if self.chunk_style == 1:
                    h = h.upper()
                elif self.chunk_style == 2:
                    h = "000" + h
                elif self.chunk_style == 3:
                    h = h + ";ext=1;q"
                out += h.encode() + b"\r\n" + self.body[pos:pos + sz] + b"\r\n"
                pos += sz
            assert pos == len(self.body), (pos, len(self.body))
            last = {0: b"0", 1: b"0", 2: b"0000", 3: b"0;last", 4: b"0"}[self.chunk_style]
            if self.chunk_style == 4:
                # a trailer section (RFC 7230 4.1.2): known finding D10
                return out + last + b"\r\n" + self.trailer + b"\r\n\r\n"
            return out + last + b"\r\n\r\n"
        if self.framing == "upgrade":
            return self.body
        return b""

    def render_head(self):
        out = ("%s %s HTTP/%s\r\n" % (self.method, self.target, self.version)).encode("latin-1")
        for i, (n, v) in enumerate(self.all_headers()):
            b, a = self.ows.get(i, (" ", ""))
            out += n.encode("latin-1") + b":" + b.encode() + v.encode("latin-1") + a.encode() + b"\r\n"
        return out + b"\r\n"

    def render(self):
        return self.render_head() + self.render_body()

    def expected_body_length(self):
        if self.framing == "cl":
            return len(self.body)
        return None

    def persists(self):
        """Connection persistence per the property text of C12."""
        c = None
        for n, v in self.all_headers():
            if n.lower() == "connection":
                c = v.lower()
                break
        if c is not None and ("close" in c or "upgrade" in c):
            return False
        if self.version == "1.0":
            return c is not None and "keep-alive" in c
        return True


def random_chunks(rng, n):
    if n == 0:
        return []
    k = rng.choice([0, 1, 2, 3])
    if k == 0:
        return [n]
    if k == 1 and n <= 64:
        return [1] * n
    if k == 1 and n <= 5000 and rng.chance(1, 3):
        return [1] * n            # thousands of one-byte chunks
    out = []
    left = n
    while left > 0:
        c = min(left, rng.choice([1, 2, 7, 16, 255, 256, 1000, 1024, 4096, 9000]))
        out.append(c)
        left -= c
    return out


def random_headers(rng, kmax=6):
    hs = []
    for _ in range(rng.below(kmax + 1)):
        hs.append((rng.choice(HNAMES), rng.choice(HVALUES)))
    return hs


def random_target(rng):
    return rng.choice(["/", "/a", "/a/b?c=d&e=%20f", "*", "http://h/p", "/" + "p" * 900, "/" + "q" * 1500, "/x;y=z", "/%41",
                       "/~a!b$c", "//", "/a?b#c"])


def reads_str(reads):
    if not reads:
        return "-"
    return ",".join("%s@%s" % ("*" if m is None else str(m), str(n)) for m, n in reads)


def action_str(reads, finish):
    return "%s/%s" % (reads_str(reads), finish)


def respond_str(status=200, body=b"ok", declared=True):
    return "R%d:%s:%d" % (status, hx(body), 1 if declared else 0)


def cv_line(stream, actions, transport="u", eof=True, cfg="f", extra=""):
    l = "cv %s %d %s %s %s" % (transport, 1 if eof else 0, cfg, hx(stream), ";".join(actions))
    if extra:
        l += " " + extra
    return l
