# lib/mqbase.py — shared pieces of the message-queue properties (C07, C17): case lines for the `mq`
# executor, the history-acceptance comparison against the explored model, the oracles.
import re

EXEC = ("mq", "mqs", "rv", "su")
MODEL_AFTER_IMPL = True
PER_SHARD = 40
IMPL_SHARDS = 8           # timing windows: do not oversubscribe the machine


def parse_impl(obs):
    m = re.match(r"done=(\S+) res=(\S+) blocked=(\S+) q=(\S+)", obs)
    if not m:
        return None
    res = {}
    dur = {}
    if m.group(2) != "-":
        for x in m.group(2).split(";"):
            i, r, d = x.split(":")
            res[int(i)] = r
            dur[int(i)] = int(d)
    blocked = [] if m.group(3) == "-" else [int(x) for x in m.group(3).split(",")]
    q = [] if m.group(4) == "-" else m.group(4).split(",")
    return {"done": m.group(1), "res": res, "dur": dur, "blocked": blocked, "q": q}


def outcome_str(o):
    return "res=%s blocked=%s q=%s" % (
        ";".join("%d:%s" % (i, o["res"][i]) for i in sorted(o["res"])) if o["res"] else "-",
        ",".join(str(x) for x in sorted(o["blocked"])) if o["blocked"] else "-",
        ",".join(o["q"]) if o["q"] else "-")


def parse_mqs(obs):
    m = re.match(r"labels=(\S+) res=(\S+) q=(\S+) blocked=(\S+) dead=(\d) clock=(\d+) durs=(\S+)", obs)
    if not m:
        return None
    res = []
    if m.group(2) != "-":
        for x in m.group(2).split(","):
            k, oi, r = x.split(":")
            res.append((k, int(oi), r))
    durs = []
    if m.group(7) != "-":
        durs = [tuple(int(y) for y in x.split(":")) for x in m.group(7).split(",")]
    return {"labels": m.group(1), "res": res, "q": [] if m.group(3) == "-" else m.group(3).split(","),
            "blocked": [] if m.group(4) == "-" else [int(x) for x in m.group(4).split(",")], "dead": m.group(5) == "1",
            "durs": durs, "raw": m}


def mqs_threads(case):
    out = []
    for th in case.split(" ")[2].split("|"):
        name, ops = th.split(":", 1)
        out.append((name, [o for o in ops.split(",") if o]))
    return out


def model_line(case, obs):
    if case.startswith("rv ") or case.startswith("su "):
        return case
    if case.startswith("mqs "):
        o = parse_mqs(obs)
        if o is None:
            return "#"
        nrecv = 1 + max([int(n[1:]) for n, _ in mqs_threads(case) if n.startswith("r")] + [0])
        cfg = "a" if " cfg=a" in case else "f"
        m = o["raw"]
        return "mqr %s %d %s %s %s %s" % (cfg, nrecv, m.group(1), m.group(2), m.group(3), m.group(4))
    f = case.split(" ")
    o = parse_impl(obs)
    cfg = "f"
    for x in f[4:]:
        if x == "cfg=a":
            cfg = "a"
    if o is None:
        return "#"
    return "mqx %s %s %s %s" % (cfg, f[1], f[3], o["done"])


def agree(im, mo):
    if im.startswith("total=") or re.match(r"(-$|[tyri]\d*:)", im):
        return im == mo
    if im.startswith("labels="):
        # a clock tick the model refuses means only that the test runtime let more virtual time pass than the model's
        # latency allowance (EPS) while a timed-out receiver was waiting to be scheduled: no verdict from the replay then
        # (the oracle still judges the run); every other refused label is a disagreement
        if re.match(r"LOCKSTEP-FAIL label \d+ \(TK\d+\) is not enabled", mo):
            return True
        return mo.startswith("LOCKSTEP-OK")
    o = parse_impl(im)
    if o is None or not mo.startswith("n="):
        return False
    if "BUDGET-EXHAUSTED" in mo:
        return True            # the exploration was cut short: no verdict from this case
    allowed = [x.strip() for x in mo.split(" ", 1)[1].split(" | ")] if " " in mo else []
    return outcome_str(o) in allowed


def ops_of(case):
    return case.split(" ")[3].split(",")


def oracle_mqs(case, obs, c17=False):
    """Scheduled runs: the same demands, judged on the exact final state the runtime reports."""
    o = parse_mqs(obs)
    if o is None:
        return "FAIL implementation: " + obs[:200]
    ths = mqs_threads(case)
    pushed = [op[4:] for _, ops in ths for op in ops if op.startswith("push")]
    got = [r[1:] for _, _, r in o["res"] if r.startswith("v")]
    left = [x for x in o["q"] if x != "T"]
    if sorted(got + left) != sorted(pushed):
        return "FAIL requests pushed %r, handed out %r, still queued %r: lost or duplicated" % (pushed, got, left)
    # one producer's values reach one receiver in push order
    for name, ops in ths:
        if not name.startswith("p"):
            continue
        mine = [op[4:] for op in ops if op.startswith("push")]
        for k in set(r[0] for r in o["res"]):
            seen = [r[2][1:] for r in o["res"] if r[0] == k and r[2].startswith("v") and r[2][1:] in mine]
            idx = [mine.index(v) for v in seen]
            if idx != sorted(idx):
                return "FAIL receiver %s saw the requests of one producer out of order: %r" % (k, seen)
    if o["q"] and o["blocked"]:
        return "FAIL lost wake-up: the queue holds %r while receiver(s) %r are blocked for ever" % (o["q"], o["blocked"])
    if c17:
        nun = sum(1 for _, ops in ths for op in ops if op == "unblock")
        tokens_left = sum(1 for x in o["q"] if x == "T")
        # blocking receives that came back empty-handed can only have been released by a token
        ops_of = {n[1:]: ops for n, ops in ths if n.startswith("r")}
        pops_none = sum(1 for k, oi, r in o["res"] if r == "N" and ops_of[k][oi] == "pop")
        if pops_none > nun - tokens_left:
            return "FAIL %d blocking receive(s) returned without a request, only %d token(s) were consumed" % (pops_none, nun - tokens_left)
        # a timed receive that came back empty-handed with no unblock in the script did so by time: not before T - 1 ms
        if nun == 0:
            per = {}
            for k, d in o["durs"]:
                per.setdefault(str(k), []).append(d)
            for k, ops in ops_of.items():
                rs = [r for kk, oi, r in sorted(x for x in o["res"] if x[0] == k)]
                for j, (op, r) in enumerate(zip(ops, rs)):
                    if op.startswith("timed") and r == "N" and j < len(per.get(k, [])):
                        T = 10 * int(op[5:])
                        if per[k][j] < T - 10:
                            return "FAIL recv_timeout(%d ms) returned empty-handed after %.1f ms of virtual time" % (T // 10, per[k][j] / 10.0)
    return "OK"


def oracle_rv(case, obs):
    f = case.split(" ")
    n = int(f[2]) * int(f[3])
    m = re.match(r"total=(\d+) dup=(\d+) non200=(\d+) missing=(\d+)", obs)
    if not m:
        return "FAIL implementation: " + obs[:200]
    total, dup, non200, missing = (int(x) for x in m.groups())
    if dup:
        return "FAIL %d request(s) were handed to the application twice" % dup
    if total != n or non200 or missing:
        return ("FAIL %d requests sent, %d handed to the application; %d client answer(s) were not 200 and %d never came "
                "(requests taken off the queue without reaching the application)" % (n, total, non200, missing))
    return "OK"


def oracle_c07(case, obs):
    """From the property text: every pushed request is handed out exactly once (or is still queued), a
    single receiver sees them in push order, and no request stays queued while a receiver stays blocked."""
    if case.startswith("rv "):
        return oracle_rv(case, obs)
    if case.startswith("mqs "):
        return oracle_mqs(case, obs)
    if case.startswith("su "):
        return oracle_su(case, obs)
    o = parse_impl(obs)
    if o is None:
        return "FAIL implementation: " + obs[:200]
    ops = ops_of(case)
    pushed = [op[1:] for op in ops if op.startswith("p")]
    got = [r[1:] for i, r in sorted(o["res"].items()) if r.startswith("v")]
    left = [x for x in o["q"] if x != "T"]
    if sorted(got + left) != sorted(pushed):
        return "FAIL requests pushed %r, handed out %r, still queued %r: lost or duplicated" % (pushed, got, left)
    # per receiver order (one producer: push order)
    for t in set(int(op[1:op.index(".")]) for op in ops if op[0] in "rR"):
        mine = [o["res"][i][1:] for i in sorted(o["res"]) if ops[i][1:].startswith("%d." % t) and o["res"][i].startswith("v")]
        idx = [pushed.index(v) for v in mine]
        if idx != sorted(idx):
            return "FAIL receiver %d saw the requests out of order: %r" % (t, mine)
    if left and [x for x in o["q"]][0] != "T" and o["blocked"]:
        return "FAIL lost wake-up: request %s stays queued while receiver(s) %r stay blocked" % (left[0], o["blocked"])
    if o["q"] and o["blocked"]:
        return "FAIL lost wake-up: the queue holds %r while receiver(s) %r stay blocked" % (o["q"], o["blocked"])
    return "OK"


def rand_su(rng):
    """A script for the `su` executor: the Server-level receive calls and unblock, one after the other."""
    ops = []
    pending = 0
    k = 1
    for _ in range(3 + rng.below(7)):
        c = rng.below(12)
        if c < 3:
            ops.append("u")
            pending += 1
        elif c < 5:
            ops.append("q%d" % k)
            k += 1
            pending += 1
        elif c < 8:
            ops.append("t%d" % rng.choice([150, 300]))
            pending = max(0, pending - 1)
        elif c < 10:
            ops.append("y")
            pending = max(0, pending - 1)
        elif pending > 0 or rng.chance(1, 4):
            ops.append(rng.choice(["r", "i"]))
            pending = max(0, pending - 1)
    return ",".join(ops) if ops else "u,y"


def gen_su(tier, rng):
    fixed = ["u,t300", "u,u,t300,r,y", "u,y,t150", "q1,u,t300,t300,r", "u,t150,t150", "q1,q2,u,y,i,r,y", "u,i,t150", "t150,u,t300,y",
             "u,u,u,t300,t300,t300,t150", "q1,t300,u,t300,q2,r"]
    for sc in fixed:
        yield "su %s %s" % ("u", sc), {"server_api": "fixed"}
    yield "su t u,t300,q1,t300,u,r", {"server_api": "fixed"}
    for i in range(40 if tier == "quick" else 600):
        yield "su %s %s" % ("t" if i % 7 == 0 else "u", rand_su(rng)), {"server_api": "random"}


def oracle_su(case, obs):
    """The property read as a FIFO of requests and unblock tokens: a receive call takes the oldest entry: a request is
    returned, a token makes the call return without a request at once; when nothing is queued try_recv returns nothing at
    once, recv_timeout returns nothing after about its timeout (not earlier, at most twice as long), recv / the iterator
    block (until the harness releases them with an unblock of its own)."""
    if "failed" in obs:
        return "FAIL set-up: " + obs[:200]
    ops = case.split(" ")[2].split(",")
    res = [] if obs == "-" else obs.split(" ")
    fifo = []
    k = 0
    for op in ops:
        if op == "u":
            fifo.append("T")
            continue
        if op[0] == "q":
            fifo.append("R" + op[1:])
            continue
        if k >= len(res):
            return "FAIL no result reported for %s" % op
        r = res[k].split(":")
        k += 1
        head = fifo.pop(0) if fifo else None
        what = r[1]
        if head is not None and head != "T":
            if what != head:
                return "FAIL %s returned %s although request %s is the oldest queued entry" % (op, what, head[1:])
            if op[0] == "t" and r[2] != "fast":
                return "FAIL %s took about its whole timeout although request %s was queued" % (op, head[1:])
        elif head == "T":
            if what not in ("N", "E"):
                return "FAIL %s returned %s although an unblock token is the oldest queued entry" % (op, what)
            if op[0] == "t" and r[2] != "fast":
                return "FAIL recv_timeout(%s ms) was not released by the pending unblock (it returned after about its whole timeout)" % op[1:]
            if op in ("r", "i") and what != "E":
                return "FAIL %s was not released by the pending unblock (%s)" % (op, what)
        else:
            if op == "y" and what != "N":
                return "FAIL try_recv returned %s from an empty queue" % what
            if op[0] == "t" and (what != "N" or r[2] != "full"):
                return "FAIL recv_timeout(%s ms) on an empty queue: %s after %s" % (op[1:], what, r[2])
            if op in ("r", "i") and what != "hang":
                return "FAIL %s returned %s from an empty queue with no unblock" % (op, what)
        if op == "y" and len(r) > 2 and r[2] == "slow":
            return "FAIL try_recv took more than 100 ms"
        if op[0] == "t" and r[2] == "odd":
            return "FAIL recv_timeout(%s ms) returned neither at once nor within [0.9 T, 2 T + 150 ms]" % op[1:]
    return "OK"


def oracle_c17(case, obs):
    """Each unblock releases exactly one receive call (or its token is still queued); try_recv never
    blocks; a timed receive that returns empty-handed by time does so within [T - 1 ms, 2T + slack]."""
    if case.startswith("mqs "):
        return oracle_mqs(case, obs, c17=True)
    if case.startswith("su "):
        return oracle_su(case, obs)
    o = parse_impl(obs)
    if o is None:
        return "FAIL implementation: " + obs[:200]
    ops = ops_of(case)
    v = oracle_c07(case, obs)
    if v != "OK":
        return v
    nun = sum(1 for op in ops if op == "u")
    tokens_left = sum(1 for x in o["q"] if x == "T")
    # calls that returned empty-handed: by a token, or (timed / try) for lack of anything
    empties = [i for i, r in o["res"].items() if r == "N"]
    pops = [i for i in empties if ops[i].endswith(".pop")]
    # a blocking pop only ever returns None through a token
    if len(pops) > nun - tokens_left:
        return "FAIL %d blocking receive(s) returned without a request but only %d unblock token(s) were consumed" % (len(pops), nun - tokens_left)
    for i, r in o["res"].items():
        if ops[i].endswith(".try") and o["dur"][i] > 100000:
            return "FAIL try_recv blocked for %d us" % o["dur"][i]
        if ".timed" in ops[i] and r == "N":
            T = int(ops[i].split("timed")[1]) * 1000
            d = o["dur"][i]
            early = d < T - 1000
            if early and nun == 0:
                return "FAIL recv_timeout(%d ms) returned empty-handed after %d us (earlier than T - 1 ms) with no unblock" % (T // 1000, d)
            if d > 2 * T + 500000:
                return "FAIL recv_timeout(%d ms) returned empty-handed after %d us (later than 2T + 500 ms)" % (T // 1000, d)
    # n unblocks release n receivers: blocked receivers must not outlast queued tokens
    if tokens_left and o["blocked"]:
        return "FAIL an unblock token stays queued while receiver(s) %r stay blocked" % (o["blocked"],)
    return "OK"


def rand_mqs(rng, allow_unblock):
    nrecv = 1 + rng.below(3)
    ths = []
    v = 1
    for k in range(nrecv):
        ops = [rng.choice(["pop", "pop", "try", "timed30", "timed5"]) for _ in range(1 + rng.below(3))]
        ths.append("r%d:%s" % (k, ",".join(ops)))
    for p in range(1 + rng.below(2)):
        ops = []
        for _ in range(1 + rng.below(4)):
            c = rng.below(10)
            if c < 5:
                ops.append("push%d" % (100 * (p + 1) + v))
                v += 1
            elif c < 7 and allow_unblock:
                ops.append("unblock")
            else:
                ops.append("sleep%d" % rng.choice([1, 44, 294, 296, 300, 310]))
        ths.append("p%d:%s" % (p, ",".join(ops)))
    return "|".join(ths)
