# lib/common.py — shared machinery of ./check: builds, sharded execution, comparison,
# failure protocol, evidence.
import fcntl
import hashlib
import json
import os
import re
import shutil
import subprocess
import sys
import time

ROOT = os.path.dirname(os.path.dirname(os.path.abspath(__file__)))
COQ = os.path.join(ROOT, "coq")
OCAML = os.path.join(ROOT, "ocaml")
HARNESS = os.path.join(ROOT, "harness")
DRIVER_BIN = os.path.join(OCAML, "driver")
HARNESS_BIN = os.path.join(HARNESS, "target", "release", "th-harness")
NPROC = min(16, os.cpu_count() or 4)
GUARD = "tiny_http_verif"

FORBIDDEN = re.compile(
    r"\b(Admitted|admit|Axiom|Axioms|Parameter|Parameters|Conjecture|Conjectures|Hypothesis|Variable)\b|Unset Guard|bypass_check|type-in-type|impredicative-set|Admit Obligations"
)
# names Print Assumptions may list (standard-library axioms; none is needed so far)
AXIOM_ALLOW = set()

TRUSTED_BASE = [
    "Coq 8.16.1 kernel (coqc; coqchk in the thorough tier); vm_compute for closed witnesses/examples; no native_compute",
    "extraction with ExtrOcamlBasic only (no Extract Constant / Extract Inductive of our own); OCaml 4.13.1 + zarith",
    "ocaml/conv.ml + ocaml/driver.ml (case parsing, ascii/N conversion, printing)",
    "Rust harness /verif/harness (case execution against the crate built from /repo, canonicalisation)",
    "lib/*.py (case generation, comparison, failure protocol)",
    "the hand-written Gallina model's reading of std (BufReader/BufWriter, Mutex/Condvar, mpsc, str/usize parsing) and of chunked_transfer",
]


class Lock:
    def __init__(self, name):
        os.makedirs(os.path.join(ROOT, "run"), exist_ok=True)
        self.path = os.path.join(ROOT, "run", name + ".lock")

    def __enter__(self):
        self.f = open(self.path, "w")
        fcntl.flock(self.f, fcntl.LOCK_EX)

    def __exit__(self, *a):
        fcntl.flock(self.f, fcntl.LOCK_UN)
        self.f.close()


def sh(cmd, cwd=None, timeout=1800, env=None):
    e = dict(os.environ)
    e.update({"CARGO_NET_OFFLINE": "true"})
    if env:
        e.update(env)
    p = subprocess.run(cmd, cwd=cwd, shell=isinstance(cmd, str), stdout=subprocess.PIPE,
                       stderr=subprocess.STDOUT, timeout=timeout, env=e)
    return p.returncode, p.stdout.decode("utf-8", "replace")


# ---------------------------------------------------------------------------------------------
# Coq side
# ---------------------------------------------------------------------------------------------
def ensure_coq_makefile():
    mk = os.path.join(COQ, "Makefile")
    cp = os.path.join(COQ, "_CoqProject")
    if not os.path.exists(mk) or os.path.getmtime(mk) < os.path.getmtime(cp):
        rc, out = sh("coq_makefile -f _CoqProject -o Makefile", cwd=COQ)
        if rc != 0:
            raise RuntimeError("coq_makefile failed:\n" + out)


def scan_forbidden():
    """Greps the whole development for things that would void the proofs."""
    hits = []
    for dp, _, fs in os.walk(os.path.join(COQ, "theories")):
        for f in fs:
            if not f.endswith(".v"):
                continue
            p = os.path.join(dp, f)
            txt = open(p).read()
            # strip comments (non-nested is enough for our own sources, nested handled by loop)
            prev = None
            while prev != txt:
                prev = txt
                txt = re.sub(r"\(\*[^*]*(?:\*(?!\))[^*]*)*\*\)", " ", txt)
            in_section = 0
            for ln, line in enumerate(txt.split("\n"), 1):
                if re.match(r"\s*Section\b", line):
                    in_section += 1
                if re.match(r"\s*End\b", line) and in_section > 0:
                    in_section -= 1
                for m in FORBIDDEN.finditer(line):
                    w = m.group(0)
                    if w in ("Hypothesis", "Variable") and in_section > 0:
                        continue
                    hits.append("%s:%d: %s" % (os.path.relpath(p, ROOT), ln, w))
    return hits


def build_coq(props_files):
    """Builds the Props files of a property (one name or a list) and merges the audits."""
    if isinstance(props_files, str):
        return build_coq_one(props_files)
    res = None
    for pf in props_files:
        r = build_coq_one(pf)
        if res is None:
            res = r
        else:
            res["obligations"] += r["obligations"]
            res["discharged"] += r["discharged"]
            res["theorems"] += r["theorems"]
            if not r["ok"] and res["ok"]:
                res["ok"] = False
                res["detail"] = r["detail"]
                res["failing"] = r["failing"]
    return res


def build_coq_one(props_file):
    """Builds theories/Props/<props_file>.vo (full .vo build) and audits its output.
    Returns dict(ok, obligations, discharged, detail, failing)."""
    ensure_coq_makefile()
    vo = "theories/Props/%s.vo" % props_file
    src = os.path.join(COQ, "theories", "Props", props_file + ".v")
    outp = os.path.join(COQ, "theories", "Props", props_file + ".out")
    with Lock("coq"):
        # always recompile the Props file itself so that its Print Assumptions output is fresh;
        # its dependencies are rebuilt by make only when stale
        try:
            os.remove(os.path.join(COQ, vo))
        except FileNotFoundError:
            pass
        rc, out = sh("ulimit -v 16000000; timeout 1500 make -j%d %s" % (NPROC, vo), cwd=COQ, timeout=1600)
        open(outp, "w").write(out)
    text = open(src).read()
    theorems = re.findall(r"^\s*(?:Theorem|Example|Corollary)\s+(\w+)", text, re.M)
    prints = re.findall(r"^\s*Print Assumptions\s+(\w+)", text, re.M)
    res = {"ok": False, "obligations": len(theorems), "discharged": 0, "detail": "", "failing": None,
           "theorems": theorems}
    if rc != 0:
        m = re.search(r'File "([^"]+)", line (\d+)', out)
        res["detail"] = "coq build failed: " + (out.strip().split("\n")[-6:] and "\n".join(out.strip().split("\n")[-12:]))
        res["failing"] = "%s:%s" % (m.group(1), m.group(2)) if m else vo
        return res
    # audit assumptions: one block per Print Assumptions
    closed = out.count("Closed under the global context")
    axioms = re.findall(r"^Axioms:\n((?:.+\n)+?)(?=\S|\Z)", out, re.M)
    bad = []
    for blk in axioms:
        for line in blk.split("\n"):
            m = re.match(r"^(\S+)\s*:", line)
            if m and m.group(1) not in AXIOM_ALLOW:
                bad.append(m.group(1))
    if "Axioms:" in out and not axioms:
        bad.append("unparsed Axioms block")
    if bad:
        res["detail"] = "assumptions not clean: " + ", ".join(bad)
        res["failing"] = vo + " (Print Assumptions)"
        return res
    if closed + len(axioms) < len(prints):
        res["detail"] = "only %d of %d Print Assumptions reports found" % (closed + len(axioms), len(prints))
        res["failing"] = vo
        return res
    hits = scan_forbidden()
    if hits:
        res["detail"] = "forbidden constructs: " + "; ".join(hits[:5])
        res["failing"] = hits[0]
        return res
    res["ok"] = True
    res["discharged"] = len(theorems)
    res["detail"] = "%d theorems, %d assumption reports closed" % (len(theorems), closed)
    return res


def run_coqchk(props_files):
    """Thorough tier: re-checks the compiled Props files and everything they depend on with the
    independent checker and reports the axioms of the whole closure. Returns (ok, detail)."""
    if isinstance(props_files, str):
        props_files = [props_files]
    mods = " ".join("TH.Props." + p for p in props_files)
    with Lock("coq"):
        rc, out = sh("ulimit -v 16000000; timeout 2400 coqchk -o -silent -Q theories TH %s 2>&1" % mods, cwd=COQ, timeout=2500)
    if rc != 0:
        return False, "coqchk failed: " + out[-600:]
    m = re.search(r"\* Axioms:\s*(.*?)\n\s*\n\s*\*", out, re.S)
    axioms = m.group(1).strip() if m else "?"
    bad = [k for k in ("type-in-type", "unsafe (co)fixpoints", "positivity is assumed")
           if not re.search(re.escape(k) + r":\s*<none>", out)]
    if axioms != "<none>" or bad:
        return False, "coqchk: axioms = %s; %s" % (axioms[:300], ", ".join(bad))
    return True, "coqchk -o: Axioms: <none>; no type-in-type, unsafe fixpoints or assumed positivity"


def build_driver():
    """(Re)builds the extracted model and the OCaml driver if stale."""
    ensure_coq_makefile()
    with Lock("coq"):
        rc, out = sh("ulimit -v 16000000; timeout 1500 make -j%d theories/Extract/Extract.vo" % NPROC, cwd=COQ, timeout=1600)
        if rc != 0:
            raise RuntimeError("extraction failed:\n" + out[-3000:])
        srcs = [os.path.join(OCAML, f) for f in ("model.ml", "conv.ml", "explore.ml", "driver.ml")]
        if not os.path.exists(os.path.join(OCAML, "model.ml")):
            # Extract.vo is fresh but model.ml was removed: force re-extraction
            os.remove(os.path.join(COQ, "theories/Extract/Extract.vo"))
            rc, out = sh("ulimit -v 16000000; timeout 1500 make -j%d theories/Extract/Extract.vo" % NPROC, cwd=COQ, timeout=1600)
            if rc != 0:
                raise RuntimeError("extraction failed:\n" + out[-3000:])
        if (not os.path.exists(DRIVER_BIN)) or any(os.path.getmtime(s) > os.path.getmtime(DRIVER_BIN) for s in srcs):
            rc, out = sh("./build.sh", cwd=OCAML, timeout=900)
            if rc != 0:
                raise RuntimeError("driver build failed:\n" + out[-3000:])


def build_harness():
    """Builds the harness against /repo's current working tree with the hooks enabled."""
    with Lock("cargo"):
        rc, out = sh("cargo build --offline --release 2>&1", cwd=HARNESS, timeout=1500,
                     env={"RUSTFLAGS": "--cfg %s" % GUARD})
    if rc != 0:
        return False, out
    return True, out


# ---------------------------------------------------------------------------------------------
# sharded execution
# ---------------------------------------------------------------------------------------------
def _big_stack():
    # the extracted model recurses over byte lists (non-tail calls): give it the stack it needs
    import resource
    try:
        resource.setrlimit(resource.RLIMIT_STACK, (resource.RLIM_INFINITY, resource.RLIM_INFINITY))
    except (ValueError, OSError):
        try:
            soft, hard = resource.getrlimit(resource.RLIMIT_STACK)
            resource.setrlimit(resource.RLIMIT_STACK, (hard, hard))
        except (ValueError, OSError):
            pass


def run_sharded(binary, lines, workdir, tag, shards=NPROC, timeout=3600, env=None, args=(), per_shard=64, groups_out=None):
    """Feeds `lines` to `binary` over `shards` parallel processes; returns the output lines in order.
    Lines are dealt out round-robin (expensive cases that a generator emits next to each other are spread over
    the processes); groups_out, if given, receives the index list each process worked through, in order."""
    n = len(lines)
    if n == 0:
        return []
    shards = max(1, min(shards, (n + per_shard - 1) // per_shard))
    groups = [list(range(i, n, shards)) for i in range(shards)]
    if groups_out is not None:
        groups_out[:] = groups
    procs = []
    e = dict(os.environ)
    if env:
        e.update(env)
    for i in range(shards):
        chunk = [lines[j] for j in groups[i]]
        if not chunk:
            continue
        inp = os.path.join(workdir, "%s.in.%d" % (tag, i))
        outp = os.path.join(workdir, "%s.out.%d" % (tag, i))
        with open(inp, "w") as f:
            f.write("\n".join(chunk) + "\n")
        fi = open(inp)
        fo = open(outp, "w")
        p = subprocess.Popen([binary] + list(args), stdin=fi, stdout=fo, stderr=subprocess.DEVNULL, env=e,
                             preexec_fn=_big_stack)
        procs.append((p, fi, fo, outp, len(chunk), groups[i]))
    res = [None] * n
    deadline = time.time() + timeout
    for p, fi, fo, outp, cnt, idx in procs:
        try:
            p.wait(timeout=max(1, deadline - time.time()))
        except subprocess.TimeoutExpired:
            p.kill()
        fi.close()
        fo.close()
        got = open(outp).read().split("\n")
        if got and got[-1] == "":
            got.pop()
        if len(got) < cnt:
            got += ["EXECUTOR-DIED rc=%s" % p.returncode] * (cnt - len(got))
        for j, x in zip(idx, got[:cnt]):
            res[j] = x
    return [x if x is not None else "EXECUTOR-DIED rc=?" for x in res]


# ---------------------------------------------------------------------------------------------
# known findings, replays, evidence
# ---------------------------------------------------------------------------------------------
def load_known():
    p = os.path.join(ROOT, "known_findings.json")
    if not os.path.exists(p):
        return []
    return json.load(open(p))


def write_replay(prop, content, suffix="case"):
    d = os.path.join(ROOT, "replays")
    os.makedirs(d, exist_ok=True)
    h = hashlib.sha1(content.encode()).hexdigest()[:12]
    p = os.path.join(d, "%s-%s.%s" % (prop, h, suffix))
    with open(p, "w") as f:
        f.write(content)
    return p


def write_evidence(prop, tier, seed, wall, coverage, violations, assumptions):
    d = os.path.join(ROOT, "evidence")
    os.makedirs(d, exist_ok=True)
    ev = {
        "property_id": prop,
        "tier": tier,
        "seed": seed,
        "level": "proof",
        "wall_s": round(wall, 2),
        "violations": violations,
        "coverage": coverage,
        "assumptions": assumptions,
    }
    tmp = os.path.join(d, ".%s.json.%d" % (prop, os.getpid()))
    with open(tmp, "w") as f:
        json.dump(ev, f, indent=1)
        f.write("\n")
    os.replace(tmp, os.path.join(d, prop + ".json"))


class Rng:
    """xorshift64* — every random choice of a run derives from one state seeded by VERIF_SEED."""

    def __init__(self, seed):
        self.s = (seed * 0x9E3779B97F4A7C15 + 0x1234567) & 0xFFFFFFFFFFFFFFFF or 1

    def next(self):
        x = self.s
        x ^= (x >> 12)
        x ^= (x << 25) & 0xFFFFFFFFFFFFFFFF
        x ^= (x >> 27)
        self.s = x
        return (x * 0x2545F4914F6CDD1D) & 0xFFFFFFFFFFFFFFFF

    def below(self, n):
        return self.next() % n

    def choice(self, l):
        return l[self.below(len(l))]

    def chance(self, num, den):
        return self.below(den) < num

    def shuffle(self, l):
        for i in range(len(l) - 1, 0, -1):
            j = self.below(i + 1)
            l[i], l[j] = l[j], l[i]


def hx(b):
    if isinstance(b, str):
        b = b.encode("latin-1")
    return b.hex() if b else "-"


def hdrs(l):
    return ",".join("%s:%s" % (hx(n), hx(v)) for n, v in l) if l else "-"


def workdir():
    d = os.path.join(ROOT, "run", str(os.getpid()))
    os.makedirs(d, exist_ok=True)
    return d


def cleanup_workdir():
    d = os.path.join(ROOT, "run", str(os.getpid()))
    shutil.rmtree(d, ignore_errors=True)
