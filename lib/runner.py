# lib/runner.py — the check pipeline shared by all properties (DESIGN §2.2, §2.3).
import json
import os
import sys
import time

from common import *
import known as known_classes


def load_corpus(prop):
    d = os.path.join(ROOT, "corpus", prop)
    lines = []
    if os.path.isdir(d):
        for f in sorted(os.listdir(d)):
            if f.endswith(".case"):
                for l in open(os.path.join(d, f)):
                    l = l.rstrip("\n")
                    if l and not l.startswith("#"):
                        lines.append(l)
    return lines


def classify_known(prop, case, known):
    """Returns the known finding (status 'known') whose class predicate matches this case."""
    for k in known:
        if k.get("status") != "known" or (k.get("property") != prop and prop not in k.get("also_affects", [])):
            continue
        pat = k.get("case_regex")
        if pat and re.search(pat, case):
            return k
        cls = k.get("class")
        if cls and cls in known_classes.CLASSES and known_classes.CLASSES[cls](case):
            return k
    return None


def evaluate(mod, lines, wd, tag, env=None):
    """Runs implementation, model and oracle on the case lines."""
    e = dict(env or {})
    e.setdefault("TH_SOCK_DIR", wd)
    if getattr(mod, "MODEL_AFTER_IMPL", False):
        # history-acceptance flow: the implementation runs first; the model is asked for the set of
        # outcomes it allows for what was observed of the run (release order, completions)
        impl = run_impl(mod, lines, wd, tag, e)
        model = run_sharded(DRIVER_BIN, [mod.model_line(c, o) for c, o in zip(lines, impl)], wd, tag + "-model",
                            timeout=mod_timeout(mod), per_shard=getattr(mod, "PER_SHARD", 64))
        spec = []
        for c, o in zip(lines, impl):
            try:
                spec.append(mod.oracle(c, o))
            except Exception as ex:
                spec.append("FAIL oracle exception: %r" % (ex,))
        return impl, model, spec
    # cases with one of these prefixes are lock-step cases: the implementation runs first, the model then replays
    # the labels recorded from it (mod.model_line_after); all others are run by the model on the case line itself
    after = tuple(getattr(mod, "AFTER_PREFIXES", ()))
    is_after = [bool(after) and c.startswith(after) for c in lines]
    model = run_sharded(DRIVER_BIN, ["#" if a else c for c, a in zip(lines, is_after)], wd, tag + "-model",
                        timeout=mod_timeout(mod), per_shard=getattr(mod, "PER_SHARD", 64))
    # the model may tell the harness how many response bytes to wait for (never what they are)
    if hasattr(mod, "hint"):
        impl_lines = [c if a else mod.hint(c, m) for c, m, a in zip(lines, model, is_after)]
    else:
        impl_lines = lines
    impl = run_impl(mod, impl_lines, wd, tag, e)
    if any(is_after):
        idx = [i for i, a in enumerate(is_after) if a]
        m2 = run_sharded(DRIVER_BIN, [mod.model_line_after(lines[i], impl[i]) for i in idx], wd, tag + "-model-after",
                         timeout=mod_timeout(mod))
        for i, x in zip(idx, m2):
            model[i] = x
    if hasattr(mod, "oracle"):
        spec = []
        for c, o in zip(lines, impl):
            try:
                spec.append(mod.oracle(c, o))
            except Exception as ex:  # an oracle that cannot read the observation is a failure, not a pass
                spec.append("FAIL oracle exception: %r" % (ex,))
    else:
        # cases with one of mod.NO_SPEC_PREFIXES are judged by the model comparison alone (the extracted spec function
        # reads the other executor's case format)
        nospec = tuple(getattr(mod, "NO_SPEC_PREFIXES", ()))
        idx = [i for i, c in enumerate(lines) if not (nospec and c.startswith(nospec))]
        spec_in = ["spec:%s %s | %s" % (mod.ID, lines[i], impl[i]) for i in idx]
        got = run_sharded(DRIVER_BIN, spec_in, wd, tag + "-spec", timeout=mod_timeout(mod))
        spec = ["OK"] * len(lines)
        for i, x in zip(idx, got):
            spec[i] = x
    return impl, model, spec


def run_impl(mod, impl_lines, wd, tag, e):
    """Runs the implementation on the case lines. A case that kills the executor (abort, or the watchdog's
    exit after HANG-IN-CASE) takes the rest of its process's cases with it: the first dead case of a process is
    the culprit (ABORT), the ones behind it are run again."""
    groups = []
    kw = dict(timeout=mod_timeout(mod), env=e, shards=getattr(mod, "IMPL_SHARDS", NPROC), per_shard=getattr(mod, "PER_SHARD", 64))
    impl = run_sharded(HARNESS_BIN, impl_lines, wd, tag + "-impl", groups_out=groups, **kw)
    if not getattr(mod, "RERUN_AFTER_DEATH", True):
        return impl
    rounds = 0
    while rounds < 6 and any(x.startswith("EXECUTOR-DIED") for x in impl):
        rounds += 1
        dead = [i for i, x in enumerate(impl) if x.startswith("EXECUTOR-DIED")]
        firsts = []
        for g in groups:
            for pos, i in enumerate(g):
                if impl[i].startswith("EXECUTOR-DIED"):
                    if not (pos > 0 and impl[g[pos - 1]].startswith("HANG-IN-CASE")):
                        firsts.append(i)
                    break
        for i in firsts:
            impl[i] = "ABORT " + impl[i]
        rest = [i for i in dead if i not in firsts]
        if not rest:
            break
        g2 = []
        again = run_sharded(HARNESS_BIN, [impl_lines[i] for i in rest], wd, tag + "-impl-r%d" % rounds, groups_out=g2, **kw)
        groups = [[rest[j] for j in g] for g in g2]
        for i, x in zip(rest, again):
            impl[i] = x
    return impl


def mod_timeout(mod):
    return getattr(mod, "TIMEOUT", 3000)


def run_property(mod, tier, seed, replay=None):
    t0 = time.time()
    prop = mod.ID
    wd = workdir()
    known = load_known()
    violations = []  # (replay_path, suffix)
    known_hits = []
    notes = []

    # 1. proofs
    coq = build_coq(mod.PROPS)
    if not coq["ok"]:
        notes.append("proof side: " + coq["detail"])
    elif tier == "thorough":
        ok, detail = run_coqchk(mod.PROPS)
        notes.append(detail)
        if not ok:
            coq["ok"] = False
            coq["detail"] = detail
            coq["failing"] = "coqchk on Props/%s" % (mod.PROPS if isinstance(mod.PROPS, str) else ",".join(mod.PROPS))
    # 2. model driver and harness (from /repo's current working tree)
    build_driver()
    ok, out = build_harness()
    if not ok:
        rp = write_replay(prop, "harness no longer builds against /repo (public or hooked API changed)\n" + out[-4000:], "txt")
        print("VIOLATION property=%s replay=%s no-failing-input-found" % (prop, rp))
        write_evidence(prop, tier, seed, time.time() - t0,
                       {"obligations": coq["obligations"], "discharged": coq["discharged"],
                        "checker_cmd": "make -C coq theories/Props/%s.vo" % (mod.PROPS if isinstance(mod.PROPS, str) else ",".join(mod.PROPS)),
                        "trusted_base": TRUSTED_BASE, "evaluations": 0, "distinct_nontrivial": 0,
                        "rule": "harness build failed", "samples": []}, 1, [])
        return 1

    # 3. cases: corpus first, then generated
    rng = Rng(seed)
    if replay:
        execs = mod.EXEC if isinstance(mod.EXEC, (tuple, list)) else (mod.EXEC,)
        lines = [l.rstrip("\n") for l in open(replay) if any(l.startswith(x + " ") for x in execs) or l.startswith("case: ")]
        lines = [l[6:] if l.startswith("case: ") else l for l in lines]
        tags = [{} for _ in lines]
    else:
        corpus = load_corpus(prop)
        gen = list(mod.gen(tier, rng))
        lines = corpus + [g[0] for g in gen]
        tags = [{"src": "corpus"} for _ in corpus] + [g[1] for g in gen]
    env = getattr(mod, "ENV", None)
    impl, model, spec = evaluate(mod, lines, wd, "main", env=env)

    # 4. compare
    disagreements = []
    known_disagreements = []
    failures = []
    skipped = 0
    hist = {}
    distinct = set()
    for i, (c, im, mo, sp) in enumerate(zip(lines, impl, model, spec)):
        for k, v in tags[i].items():
            hist.setdefault(k, {})
            hist[k][str(v)] = hist[k].get(str(v), 0) + 1
        if mo == "U" or mo.startswith("SKIP") or im.startswith("SKIP"):
            skipped += 1
            # outside the modelled domain: robustness only (no panic, oracle may still judge)
            if im.startswith("PANIC") or im.startswith("EXECUTOR-DIED") or im.startswith("ABORT"):
                failures.append((i, "robustness: " + im[:200]))
            elif getattr(mod, "ORACLE_ON_SKIP", False) and sp.startswith("FAIL"):
                failures.append((i, sp))
            continue
        if getattr(mod, "AFTER_PREFIXES", ()) and c.startswith(tuple(mod.AFTER_PREFIXES)):
            differs = not mod.agree_after(im, mo)
        elif hasattr(mod, "agree"):
            differs = not mod.agree(im, mo)
        else:
            differs = mod.project(im) != mod.project(mo)
        if differs:
            kf = classify_known(prop, c, known)
            if kf:
                # a listed finding: the model of the repaired/intended behaviour and the code differ here by
                # definition; reported as KNOWN-FINDING, never as a broken correspondence
                known_disagreements.append((i, kf))
            else:
                disagreements.append(i)
        if sp.startswith("FAIL"):
            failures.append((i, sp))
        elif not (sp == "OK" or sp == "SKIP"):
            failures.append((i, "oracle did not answer: " + sp[:200]))
        if mod.nontrivial(c, mo):
            distinct.add(c)

    if os.environ.get("VERIF_DUMP"):
        with open(os.environ["VERIF_DUMP"], "w") as df:
            for i in disagreements[:500]:
                df.write("case: %s\nimpl:  %s\nmodel: %s\n\n" % (lines[i], impl[i], model[i]))

    def replay_text(i, why):
        return ("# property %s, tier %s, seed %d\n# %s\ncase: %s\nimpl:  %s\nmodel: %s\noracle: %s\n"
                % (prop, tier, seed, why, lines[i], impl[i][:100000], model[i][:100000], spec[i]))

    reported = set()
    for i, kf in known_disagreements:
        if kf["id"] not in reported:
            reported.add(kf["id"])
            known_hits.append("KNOWN-FINDING: property=%s %s (%s)" % (prop, kf["what"], kf["id"]))
    for i, why in failures[:50]:
        k = classify_known(prop, lines[i], known)
        if k:
            if k["id"] not in reported:
                reported.add(k["id"])
                known_hits.append("KNOWN-FINDING: property=%s %s (%s)" % (prop, k["what"], k["id"]))
            continue
        if len(violations) < 3:
            small = mod.shrink(lines[i], lambda l: still_fails(mod, l, wd, env)) if hasattr(mod, "shrink") else lines[i]
            if small != lines[i]:
                im2, mo2, sp2 = evaluate(mod, [small], wd, "shr", env=env)
                txt = ("# property %s, tier %s, seed %d\n# %s\n# shrunk from: %s\ncase: %s\nimpl:  %s\nmodel: %s\noracle: %s\n"
                       % (prop, tier, seed, why, lines[i][:2000], small, im2[0][:100000], mo2[0][:100000], sp2[0]))
            else:
                txt = replay_text(i, why)
            violations.append((write_replay(prop, txt), ""))

    if not violations and (disagreements or not coq["ok"]):
        # the tie is broken but the oracle is still satisfied on everything explored so far:
        # widen the search around the disagreeing cases
        found = None
        if disagreements and hasattr(mod, "neighbours"):
            nb = []
            for i in disagreements[:20]:
                nb += list(mod.neighbours(lines[i], rng))
            nb = nb[:20000]
            if nb:
                im2, mo2, sp2 = evaluate(mod, nb, wd, "widen", env=env)
                for c, a, b, sv in zip(nb, im2, mo2, sp2):
                    if sv.startswith("FAIL") and not classify_known(prop, c, known):
                        found = ("# property %s: found while widening the search around a model/implementation disagreement\ncase: %s\nimpl:  %s\nmodel: %s\noracle: %s\n"
                                 % (prop, c, a[:100000], b[:100000], sv))
                        break
        if found:
            violations.append((write_replay(prop, found), ""))
        elif disagreements:
            i = disagreements[0]
            txt = ("# correspondence obs_%s(model) != obs_%s(implementation) no longer checks; the oracle is satisfied on every input tried\n"
                   "# %d disagreeing cases of %d; first one:\n" % (prop, prop, len(disagreements), len(lines))) + replay_text(i, "model/implementation disagreement")
            violations.append((write_replay(prop, txt), " no-failing-input-found"))
        else:
            txt = "# theorem no longer checks: %s\n# %s\n" % (coq["failing"], coq["detail"])
            violations.append((write_replay(prop, txt, "txt"), " no-failing-input-found"))

    # 5. evidence
    samples = []
    step = max(1, len(lines) // 4)
    for i in list(range(0, len(lines), step))[:5]:
        samples.append({"case": lines[i][:600], "impl": impl[i][:300], "model": model[i][:300], "oracle": spec[i][:100]})
    coverage = {
        "obligations": coq["obligations"],
        "discharged": coq["discharged"],
        "checker_cmd": "make -C coq theories/Props/%s.vo  (full .vo build; Print Assumptions audited; forbidden-construct grep)" % (mod.PROPS if isinstance(mod.PROPS, str) else ",".join(mod.PROPS)),
        "trusted_base": TRUSTED_BASE,
        "theorems": coq["theorems"],
        "evaluations": len(lines),
        "distinct_nontrivial": len(distinct),
        "traces_validated_against_impl": len(lines) - skipped,
        "outside_modelled_domain": skipped,
        "disagreements_checked": len(disagreements),
        "oracle_failures": len(failures),
        "rule": mod.RULE,
        "histogram": hist,
        "samples": samples,
        "exhaustive": bool(getattr(mod, "EXHAUSTIVE", False)),
        "notes": notes,
    }
    if hasattr(mod, "extra_coverage"):
        coverage.update(mod.extra_coverage(tier))
    write_evidence(prop, tier, seed, time.time() - t0, coverage, len(violations), mod.ASSUMPTIONS)
    for k in known_hits:
        print(k)
    for rp, suffix in violations:
        print("VIOLATION property=%s replay=%s%s" % (prop, rp, suffix))
    print("%s: %d cases (%d non-trivial distinct, %d outside modelled domain), %d disagreements, %d oracle failures, proofs %d/%d, %.1fs"
          % (prop, len(lines), len(distinct), skipped, len(disagreements), len(failures),
             coq["discharged"], coq["obligations"], time.time() - t0))
    cleanup_workdir()
    return 1 if violations else 0


def still_fails(mod, line, wd, env):
    im, mo, sp = evaluate(mod, [line], wd, "shrink", env=env)
    return sp[0].startswith("FAIL")
