# lib/obs.py — parsing of `cv` observation lines and an independent (Python) reading of the
# response stream a client received; used by the oracles of the connection-level properties.
import re


def unhex(s):
    if s == "-" or s == "":
        return b""
    if s.startswith("@"):
        n = int(s[1:])
        return bytes(97 + (i % 26) for i in range(n))
    return bytes.fromhex(s)


class Req:
    __slots__ = ("method", "url", "version", "headers", "body_length", "read", "end", "addr_wrong")

    def __repr__(self):
        return "Req(%r %r %s h=%d bl=%s rd=%d e=%s)" % (self.method, self.url, self.version, len(self.headers),
                                                         self.body_length, len(self.read), self.end)


class Obs:
    __slots__ = ("n", "reqs", "wire", "end", "stray", "raw", "special")


REQ_RE = re.compile(r"\[m=([^,]*),u=([^,]*),v=([^,]*),h=([^,]*),bl=([^,]*),rd=([^,]*),e=([^,\]]*)(,addr=WRONG)?\]")


def parse_obs(line):
    o = Obs()
    o.raw = line
    o.special = None
    o.reqs = []
    o.n = 0
    o.wire = b""
    o.end = "?"
    o.stray = 0
    if not line.startswith("n="):
        o.special = line
        return o
    for m in REQ_RE.finditer(line):
        r = Req()
        r.method = unhex(m.group(1))
        r.url = unhex(m.group(2))
        r.version = m.group(3)
        r.headers = []
        if m.group(4) != "-":
            for h in m.group(4).split("+"):
                n, v = h.split(":")
                r.headers.append((unhex(n), unhex(v)))
        r.body_length = None if m.group(5) == "-" else int(m.group(5))
        r.read = unhex(m.group(6))
        r.end = m.group(7)
        r.addr_wrong = m.group(8) is not None
        o.reqs.append(r)
    o.n = int(line[2:line.index(" ")])
    mw = re.search(r"wire=(\S+) end=(\S+) stray=(\d+)", line)
    if mw:
        o.wire = unhex(mw.group(1))
        o.end = mw.group(2)
        o.stray = int(mw.group(3))
    return o


class Resp:
    __slots__ = ("version", "status", "headers", "body", "delim", "raw_len")

    def __repr__(self):
        return "Resp(%s %d body=%d %s)" % (self.version, self.status, len(self.body), self.delim)


def parse_responses(wire, head_flags=None, limit=10000):
    """Splits a client-side byte stream into responses (RFC 7230 3.3.3). head_flags[i] = the i-th
    final response answers a HEAD request (interim 1xx responses do not consume a flag).
    Returns (list of Resp, leftover bytes, error or None)."""
    res = []
    pos = 0
    k = 0
    while pos < len(wire) and len(res) < limit:
        e = wire.find(b"\r\n\r\n", pos)
        if e < 0:
            return res, wire[pos:], "incomplete head"
        lines = wire[pos:e].split(b"\r\n")
        m = re.match(rb"^HTTP/(\d)\.(\d) (\d{3}) (.*)$", lines[0], re.S)
        if not m:
            return res, wire[pos:], "bad status line"
        r = Resp()
        r.version = "%s.%s" % (m.group(1).decode(), m.group(2).decode())
        r.status = int(m.group(3))
        r.headers = []
        for l in lines[1:]:
            i = l.find(b":")
            if i <= 0 or l[:i].strip() != l[:i]:
                return res, wire[pos:], "bad header line"
            r.headers.append((l[:i], l[i + 1:].strip(b" \t")))
        body_start = e + 4
        is_head = False
        if not (100 <= r.status <= 199):
            if head_flags is not None and k < len(head_flags):
                is_head = head_flags[k]
            k += 1
        te = [v for n, v in r.headers if n.lower() == b"transfer-encoding"]
        cl = [v for n, v in r.headers if n.lower() == b"content-length"]
        if is_head or 100 <= r.status <= 199 or r.status in (204, 304):
            r.body = b""
            r.delim = "nobody"
            end = body_start
        elif te and te[-1].split(b",")[-1].strip().lower() == b"chunked":
            p = body_start
            body = b""
            while True:
                le = wire.find(b"\r\n", p)
                if le < 0:
                    return res, wire[pos:], "incomplete chunk size"
                szs = wire[p:le].split(b";")[0]
                if not re.match(rb"^[0-9a-fA-F]+$", szs):
                    return res, wire[pos:], "bad chunk size"
                sz = int(szs, 16)
                p = le + 2
                if sz == 0:
                    # trailers
                    while True:
                        le = wire.find(b"\r\n", p)
                        if le < 0:
                            return res, wire[pos:], "incomplete trailer"
                        if le == p:
                            p += 2
                            break
                        p = le + 2
                    break
                if p + sz + 2 > len(wire):
                    return res, wire[pos:], "incomplete chunk"
                body += wire[p:p + sz]
                if wire[p + sz:p + sz + 2] != b"\r\n":
                    return res, wire[pos:], "chunk not followed by CRLF"
                p += sz + 2
            r.body = body
            r.delim = "chunked"
            end = p
        elif cl:
            if len(set(cl)) != 1 or not re.match(rb"^\d+$", cl[0]):
                return res, wire[pos:], "bad content-length"
            n = int(cl[0])
            if body_start + n > len(wire):
                return res, wire[pos:], "incomplete body"
            r.body = wire[body_start:body_start + n]
            r.delim = "length"
            end = body_start + n
        else:
            r.body = wire[body_start:]
            r.delim = "close"
            end = len(wire)
        r.raw_len = end - pos
        res.append(r)
        pos = end
    return res, wire[pos:], None
