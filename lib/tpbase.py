# lib/tpbase.py — shared pieces of the task-pool properties (C08, C20).
import re

EXEC = ("tp", "bs", "sd")
PER_SHARD = 4
IMPL_SHARDS = 6


def obs_list(o):
    return re.findall(r"\[s=(\d+) t=(\d+) w=(\d+) a=(\d+)(?: th=(-?\d+) dup=(\d+))?\]", o)


def strip_impl(o):
    return re.sub(r" th=-?\d+ dup=\d+", "", o)


def agree(im, mo):
    if not mo.startswith("n="):
        # deterministic model runs (whole-server bursts, shutdown scenarios); across connections only
        # the multiset of answers is compared, never an order the code does not define
        norm = lambda o: re.sub(r"a=(\S+)", lambda m: "a=" + ",".join(sorted(m.group(1).split(","))), o)
        return norm(im) == norm(mo)
    if "BUDGET-EXHAUSTED" in mo:
        return True        # exploration cut short: no verdict from the model on this case
    allowed = [x.strip() for x in mo.split(" ", 1)[1].split(" | ")] if " " in mo else []
    return strip_impl(im) in allowed
