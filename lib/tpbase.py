# lib/tpbase.py — shared pieces of the task-pool properties (C08, C20).
import re

EXEC = ("tp", "bs", "sd", "tps")
MODEL_AFTER_IMPL = True
PER_SHARD = 12
IMPL_SHARDS = 6


def obs_list(o):
    return re.findall(r"\[s=(\d+) t=(\d+) w=(\d+) a=(\d+)(?: th=(-?\d+) dup=(\d+))?\]", o)


def strip_impl(o):
    return re.sub(r" th=-?\d+ dup=\d+", "", o)


def model_line(case, obs):
    """scheduled runs (tps): the recorded trace is replayed through the model; everything else: the model runs the case"""
    if case.startswith("tps "):
        m = re.match(r"labels=(\S+) started=(\S+)", obs)
        if not m:
            return "#"
        return "tpr %s %s %s" % ("a" if " cfg=a" in case else "f", m.group(1), m.group(2))
    return case


def tps_obs(obs):
    """[(todo, waiting, active)] of the OBS labels, the started ids, dead flag"""
    m = re.match(r"labels=(\S+) started=(\S+) dead=(\d) clock=(\d+)", obs)
    if not m:
        return None
    o = [tuple(int(x) for x in l[3:].split("/")) for l in m.group(1).split(";") if l.startswith("OBS")]
    st = [] if m.group(2) == "-" else [int(x) for x in m.group(2).split(",")]
    return {"obs": o, "started": st, "dead": m.group(3) == "1", "labels": m.group(1)}


def agree(im, mo):
    if im.startswith("labels="):
        return mo.startswith("LOCKSTEP-OK")
    if not mo.startswith("n="):
        # deterministic model runs (whole-server bursts, shutdown scenarios); across connections only
        # the multiset of answers is compared, never an order the code does not define
        norm = lambda o: re.sub(r"a=(\S+)", lambda m: "a=" + ",".join(sorted(m.group(1).split(","))), o)
        return norm(im) == norm(mo)
    if "BUDGET-EXHAUSTED" in mo:
        return True        # exploration cut short: no verdict from the model on this case
    allowed = [x.strip() for x in mo.split(" ", 1)[1].split(" | ")] if " " in mo else []
    return strip_impl(im) in allowed
