# lib/plbase.py — shared generator of the pipelined multi-thread cases (`pl` executor; C01, C06).
import itertools
from common import hx
from convgen import *
from cvbase import j

EXEC = "pl"
IMPL_SHARDS = 8
PER_SHARD = 16


def finisher(rng, tag, kinds):
    k = rng.choice(kinds)
    if k == "respond":
        size = rng.choice([0, 10, 1023, 1024, 1025, 5000])
        body = body_bytes("r" + tag, size)
        st = rng.choice([200, 200, 404, 201])
        return respond_str(st, body, True), str(st), hx(body)
    if k == "chunked":
        body = body_bytes("c" + tag, rng.choice([3, 5000, 40000]))
        return respond_str(200, body, False), "200", hx(body)
    if k == "drop":
        return "D", "500", "~"
    if k == "panic":
        return "P", "500", "~"
    if k == "resperr":
        # respond() with a body source that fails after some bytes (undeclared length: chunked, so HTTP/1.1 without TE only)
        body = body_bytes("e" + tag, rng.choice([0, 5, 3000, 20000]))
        return "E" + hx(body), "200", hx(body)
    if k == "rawempty":
        return "Z", None, None
    if k == "rawpanic":
        return "Q", None, None
    body = body_bytes("w" + tag, rng.choice([4, 300, 2000]))
    raw = b"HTTP/1.1 299 Raw\r\nContent-Length: %d\r\n\r\n" % len(body) + body
    return {"raw": "W", "rawx": "X", "rawflush": "Y", "rawflushfirst": "F", "rawvec": "V"}[k] + hx(raw), "299", hx(body)


ALL_KINDS = ["respond", "respond", "chunked", "drop", "panic", "raw", "rawx", "rawempty", "rawflush", "rawflush", "rawpanic", "rawflushfirst",
             "rawvec", "rawvec", "resperr"]


def build(rng, i, n, order, grace, kinds=ALL_KINDS, transport="u", tail=None):
    stream = b""
    acts, wu, ws, wrb, hd = [], [], [], [], []
    for k in range(n):
        tag = "%d.%d" % (i, k)
        fr = rng.choice(["none", "none", "cl"])
        m = rng.choice(["GET", "POST", "HEAD"]) if fr == "none" else "POST"
        r = AReq(method=m, target="/q" + tag, version="1.1", headers=[("Host", "h")], framing=fr,
                 body=body_bytes(tag, rng.choice([1, 100, 1024])) if fr == "cl" else b"")
        vk = rng.below(6)
        if vk == 0:
            r.version, r.conn = "1.0", "keep-alive"        # identity framing is forced
        elif vk == 1:
            r.headers.append(("TE", "identity"))
        # Expect: 100-continue in a pipeline (the client sends the body at once): the interim response belongs to THIS
        # request's place in the sequence, like its final response
        # (only on the LAST request of the pipeline: a request with an expected body holds the connection's reader until
        # its body is read, so nothing behind it could be collected before the answering starts)
        if fr == "cl" and vk > 1 and k == n - 1 and tail is None and rng.chance(2, 3):
            r.expect = rng.choice(["100-continue", "100-Continue"])
        stream += r.render()
        fin, st, rb = finisher(rng, tag, kinds)
        while fin[0] == "E" and (r.version != "1.1" or any(n == "TE" for n, _ in r.headers)):
            fin, st, rb = finisher(rng, tag, kinds)          # (identity framing would need the whole body before the head)
        reads = rng.choice([[], [], [(None, 512)]])
        if r.expect and rng.chance(2, 3):
            reads = [(None, 512)]
        acts.append(action_str(reads, fin))
        wu.append(hx(r.target))
        if r.expect and reads:
            ws.append("100")
            wrb.append("~")
        if st is None:
            continue          # the raw writer was dropped untouched: this request contributes no bytes
        ws.append(st)
        head = (m == "HEAD")
        hd.append("1" if head and fin[0] in "RDPE" else "0")
        wrb.append("-" if (head and fin[0] in "RDPE") else rb)
    # a refused head behind the pipelined requests: the connection thread answers it itself (400 / 417) and must
    # wait for its turn like everybody else
    if tail is not None:
        stream += {"nocolon": b"GET /bad HTTP/1.1\r\nHost h\r\n\r\n",
                   "ws-colon": b"GET /bad HTTP/1.1\r\nHost : h\r\n\r\n",
                   "bad-line": b"GET /bad\r\n\r\n",
                   "bad-expect": b"POST /bad HTTP/1.1\r\nExpect: bogus\r\nContent-Length: 0\r\n\r\n",
                   "bad-cl": b"POST /bad HTTP/1.1\r\nContent-Length: +3\r\n\r\nabc"}[tail]
        ws.append("417" if tail == "bad-expect" else "400")
        wrb.append("~")
        hd.append("0")
    extra = "order=%s grace=%d wu=%s ws=%s wrb=%s hd=%s we=closed" % (",".join(str(x) for x in order), grace, j(wu), j(ws), j(wrb), j(hd))
    return cv_line(stream, acts, transport=transport, extra=extra).replace("cv ", "pl ", 1), {
        "n": n, "order": "asc" if list(order) == sorted(order) else ("desc" if list(order) == sorted(order, reverse=True) else "mixed"),
        "grace_us": grace}


def gen_cases(tier, rng, kinds=ALL_KINDS):
    if tier == "quick":
        for i in range(120):
            n = 2 + rng.below(5)
            order = list(range(n))
            rng.shuffle(order)
            yield build(rng, i, n, order, rng.choice([300, 3000, 20000]), kinds)
        for i in range(200, 230):
            n = 1 + rng.below(3)
            order = list(range(n))
            rng.shuffle(order)
            yield build(rng, i, n, order, 20000, ["respond", "chunked", "raw"], tail=rng.choice(["nocolon", "ws-colon", "bad-line", "bad-expect", "bad-cl"]))
        for i in range(120, 130):
            n = 3
            order = [2, 1, 0]
            yield build(rng, i, n, order, 20000, kinds, transport="t")
    else:
        i = 0
        for n in (2, 3, 4):
            for order in itertools.permutations(range(n)):
                for rep in range(6):
                    yield build(rng, i, n, list(order), rng.choice([300, 3000, 20000]), kinds)
                    i += 1
        for _ in range(600):
            n = 5 + rng.below(2)
            order = list(range(n))
            rng.shuffle(order)
            yield build(rng, i, n, order, rng.choice([300, 3000, 20000]), kinds)
            i += 1
