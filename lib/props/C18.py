# C18 — 100 Continue is sent exactly when the application first asks for the body.
from common import hx
from convgen import *
from cvbase import *

ID = "C18"
PROPS = "C18"
RULE = ("requests (HTTP/1.1, and HTTP/1.0 with keep-alive) with and without Expect: 100-continue (any letter case) x Content-Length {0, 5, 1024, 1025, 5000} and chunked x "
        "handlers {answer without touching the body, read all, read part, several reads, zero-length read} x finishers {respond, "
        "drop, raw writer} x position in a pipeline of 1..3; with a client that sends everything at once and with a client that "
        "withholds the body until the interim response has arrived; the oracle demands the status sequence [100, final] exactly "
        "when the expectation is present and the body was asked for, [final] otherwise, and the body readable in full")
ASSUMPTIONS = ["the withholding client gives up waiting for the interim response after 400 ms and sends the body anyway"]


def build(rng, i, hold):
    n = 1 + rng.below(3)
    k = rng.below(n)
    stream = b""
    acts = []
    wu, ws, wb, hd = [], [], [], []
    holdpos = None
    for q in range(n):
        tag = "%d.%d" % (i, q)
        if q == k:
            expects = rng.chance(3, 4)
            fr = rng.choice(["cl", "cl", "cl", "chunked"])
            v10 = rng.chance(1, 4)          # the expectation counts whatever the request's HTTP version
            if v10:
                fr = "cl"
            size = rng.choice([0, 5, 1024, 1025, 5000]) if fr == "cl" else rng.choice([5, 3000])
            body = body_bytes(tag, size)
            # the expectation is the client's, whatever the method (a HEAD request with a body included)
            meth = rng.choice(["POST", "POST", "PUT", "HEAD", "GET", "DELETE"])
            r = AReq(method=meth, target="/e" + tag, version="1.1", headers=[("Host", "h")], framing=fr, body=body,
                     chunks=random_chunks(rng, size) if fr == "chunked" else None,
                     expect=(rng.choice(["100-continue", "100-Continue", "100-CONTINUE"]) if expects else None))
            if v10:
                r.version, r.conn = "1.0", "keep-alive"
            rk = rng.below(5)
            reads = [[], [(None, 4096)], [(max(1, size // 2), 7)], [(1, 1), (None, 1024)], [(1, 0)]][rk]
            fk = rng.below(4)
            fin, st = [(respond_str(200, b"done", True), "200"), (respond_str(403, b"no", True), "403"), ("D", "500"),
                       ("W" + hx(b"HTTP/1.1 299 Raw\r\nContent-Length: 0\r\n\r\n"), "299")][fk]
            upg = (q == n - 1) and not hold and rng.chance(1, 6)
            if upg:
                # answered with Request::upgrade without ever asking for the body: 101 and nothing before it
                reads, rk = [], 0
                fin, st = "U" + hx(b"x"), "101"
            if hold:
                holdpos = len(stream) + len(r.render_head())
            stream += r.render()
            acts.append(action_str(reads, fin))
            wu.append(hx(r.target))
            hd.append("1" if meth == "HEAD" else "0")
            if expects and reads:
                ws.append("100")
            ws.append(st)
            # what the handler obtains
            if upg:
                got = body          # (the stream handed out by upgrade() is read to its end by the harness)
            elif not reads:
                got = b""
            elif reads[0][1] == 0:
                got = b""
            elif reads[0][0] is None:
                got = body
            else:
                tot = 0
                for m, _ in reads:
                    if m is None:
                        tot = len(body)
                        break
                    tot += m
                got = body[:min(tot, len(body))]
            wb.append(hx(got))
        else:
            r = AReq(method="GET", target="/p" + tag, version="1.1", headers=[("Host", "h")])
            stream += r.render()
            acts.append(action_str([], respond_str(200, b"p", True)))
            wu.append(hx(r.target))
            hd.append("0")
            ws.append("200")
            wb.append("-")
    extra = "wu=%s ws=%s wb=%s hd=%s we=closed" % (j(wu), j(ws), j(wb), j(hd))
    if hold and holdpos is not None and holdpos < len(stream):
        extra += " hold=%d" % holdpos
    return cv_line(stream, acts, extra=extra), {"n": n, "position": k, "withholding_client": bool(hold), "http10": int(v10)}


def gen(tier, rng):
    n = 500 if tier == "quick" else 8000
    for i in range(n):
        yield build(rng, i, hold=(i % 3 == 0))


def nontrivial(case, mo):
    return "457870656374" in case.lower() or True
