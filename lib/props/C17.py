# C17 — unblock releases exactly one receiver; timed / non-blocking receives keep their bounds.
from mqbase import *
import mqbase

ID = "C17"
PROPS = ["C17", "C07Glue", "C17Api"]
RULE = ("scripted mixes on the real MessagesQueue<u64>: u unblocks, p pushes, 1..3 receivers with unblock before / while / after "
        "blocking, try_pop on empty, token-only and mixed queues, pop_timeout with T in {5, 50, 200 ms} measured by wall clock "
        "(bounds T - 1 ms <= d <= 2T + 500 ms for empty-handed returns by time); the implementation's outcome must be one of the "
        "outcomes of the explored model; the oracle counts tokens (calls released + tokens queued = unblock calls) and checks "
        "that no token or request stays queued while a receiver stays blocked; the SAME calls at the Server API (`su`: recv, "
        "recv_timeout, try_recv, incoming_requests and unblock issued one after the other with requests arriving in between; "
        "results and timing class must equal the sequential run of the queue model and satisfy the FIFO reading of the "
        "property); non-trivial = at least one unblock or timed call")
ASSUMPTIONS = ["wall-clock slack of 500 ms for the upper bound (scheduling latency epsilon of the theorem)",
               "an awake thread is eventually scheduled"]
oracle = mqbase.oracle_c17


def rand_script(rng, i):
    nrecv = 1 + rng.below(3)
    ops = []
    v = 1
    n = 3 + rng.below(6)
    for _ in range(n):
        k = rng.below(10)
        if k < 2:
            ops.append("p%d" % (100 * i % 1000 + v))
            v += 1
        elif k < 5:
            ops.append("u")
        elif k < 7:
            ops.append("r%d.pop" % rng.below(nrecv))
        elif k < 8:
            ops.append("r%d.try" % rng.below(nrecv))
        else:
            ops.append("r%d.timed%d" % (rng.below(nrecv), rng.choice([5, 50])))
    return "mq %d %d %s" % (nrecv, rng.choice([300, 3000, 20000]), ",".join(ops)), {"nrecv": nrecv, "ops": n}


def gen(tier, rng):
    # unblock reaching a timed receiver in its last millisecond while another receiver is blocked
    reps = 8 if tier == "quick" else 40
    for r in range(reps):
        yield "mq 2 300 m,r0.timed30,r1.pop,w29400,u", {"window": "unblock"}
        yield "mq 2 300 m,r0.timed20,r1.pop,w19400,u,u", {"window": "unblock2"}
    # a timed receiver that keeps being woken for nothing (every unblock token is stolen at once by a
    # non-blocking receive) must still return within 2T
    for T, gap in ((100, 35), (60, 25)):
        steps = []
        k = 1
        while k * gap < 12 * T:
            steps.append("w%d,u,R1.try" % (k * gap * 1000))
            k += 1
        yield "mq 2 200 m,r0.timed%d,%s" % (T, ",".join(steps)), {"window": "woken-for-nothing"}
    for T in ([5, 50, 200] if tier == "quick" else [5, 50, 200, 1000]):
        for _ in range(3):
            yield "mq 1 300 r0.timed%d" % T, {"timed_alone": T}
            yield "mq 2 300 r0.timed%d,r1.timed%d,z1,u" % (T, T), {"timed_pair": T}
    n = 150 if tier == "quick" else 3000
    for i in range(n):
        yield rand_script(rng, i)
    # scheduled runs under the controllable runtime: unblock reaching a timed receiver in its last millisecond,
    # tokens against every mix of receive calls; lock-step replay through the model
    ns = 60 if tier == "quick" else 1500
    for early in (294, 299, 200):
        for sd in range(ns):
            yield "mqs %d r0:timed30|r1:pop|p0:sleep%d,unblock" % (sd * 5 + early, early), {"scheduled": "unblock-window-%d" % early}
            yield "mqs %d r0:timed30|r1:pop|r2:try,pop|p0:sleep%d,unblock,unblock,unblock" % (sd * 5 + early, early), {"scheduled": "three-tokens"}
    for T in (5, 30):
        for sd in range(20):
            yield "mqs %d r0:timed%d|r1:timed%d,timed%d|p0:sleep%d" % (sd, T, T, T, 3 * T * 10), {"scheduled": "timed-alone"}
    # a timed receiver that is woken several times for nothing (another receiver takes the value / the token first):
    # every wake-up must leave it waiting for what is LEFT of its timeout, not return early
    for sd in range(400 if tier == "quick" else 4000):
        yield ("mqs %d r0:timed30|r1:sleep100,try,try,try,sleep99,try,try,try|p0:sleep100,push1,sleep100,push2" % (sd + 1)), {"scheduled": "stolen-wakeups"}
    for sd in range(ns // 2):
        yield ("mqs %d r0:timed30|r1:sleep100,try,sleep100,try|p0:sleep100,push1,sleep100,push2" % (sd * 3 + 1)), {"scheduled": "stolen-wakeups"}
        yield ("mqs %d r0:timed30|r1:sleep80,try,sleep80,try,sleep80,try|p0:sleep80,unblock,sleep80,push5,sleep80,unblock" % (sd * 3 + 2)), {"scheduled": "stolen-wakeups"}
        yield ("mqs %d r0:timed30,timed5|r1:sleep120,try,sleep120,try|p0:sleep120,push1,sleep120,push2,sleep150,push3" % (sd * 3 + 3)), {"scheduled": "stolen-wakeups"}
    # the same calls at the Server API (recv, recv_timeout, try_recv, incoming_requests, unblock), one after the other
    for x in mqbase.gen_su(tier, rng):
        yield x
    # time-outs above one second, woken for nothing while the remaining time is within a millisecond of a whole second
    # (and at other moments): only the clock decides when such a call may return empty-handed (virtual time: cheap)
    for T, at in ((1100, 995), (1100, 1000), (1100, 1004), (2500, 4996), (2500, 5000), (2500, 14990), (3000, 9999), (1001, 5)):
        for sd in range(30 if tier == "quick" else 300):
            steals = ",".join(["sleep%d,try" % (at if k == 0 else 3) for k in range(6)])
            pushes = ",".join(["sleep%d,unblock" % (at if k == 0 else 3) for k in range(6)])
            yield "mqs %d r0:timed%d|r1:%s|p0:%s" % (sd * 17 + T + at, T, steals, pushes), {"scheduled": "stolen-wakeups-long-timeout"}
    for i in range(300 if tier == "quick" else 6000):
        sc = mqbase.rand_mqs(rng, allow_unblock=True)
        for sd in range(3):
            yield "mqs %d %s" % (rng.below(1 << 30), sc), {"scheduled": "random"}


def project(o):
    return o


def nontrivial(case, mo):
    return ",u" in case or "timed" in case or "unblock" in case
