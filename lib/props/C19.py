# C19 — response header policy: protected names, one Content-Type, auto Date/Server.
from common import hx, hdrs

ID = "C19"
PROPS = "C19"
EXEC = "rp"
RULE = ("random builder programs: constructor (new/from_data/from_string incl. multi-byte UTF-8/from_file/empty) followed by "
        "0..12 of with_header/with_status_code/with_chunked_threshold/with_data; header names drawn from the protected and "
        "special names in several letter cases, near-miss names and ordinary names; values incl. empty, inner blanks, colons, "
        "surrounding blanks, valid/invalid/overflowing Content-Length values; non-trivial = at least one supplied header is "
        "protected, Content-Length, Content-Type, Date or Server; distinct = distinct case lines")
ASSUMPTIONS = [
    "header names are HTTP tokens and values are free of CR/LF (what the property quantifies over)",
    "the Date value comes from httpdate and the system clock: the harness checks it is a valid IMF-fixdate within 5 s of "
    "its own clock and then canonicalises it; this part is a run-time check, not a theorem",
    "from_file: only 'declared length = file size' is exercised (on a real temporary file)",
]

SPECIAL = ["Connection", "connection", "CONNECTION", "Trailer", "trailer", "Transfer-Encoding", "transfer-encoding",
           "Upgrade", "UPGRADE", "Content-Length", "content-length", "CONTENT-LENGTH", "Content-Type", "content-type",
           "CONTENT-TYPE", "Date", "date", "Server", "SERVER"]
NEAR = ["X-Content-Type", "Content-Types", "Connectio", "Trailers", "Content-Lengt", "Upgrade-Insecure-Requests", "Dat", "Servers"]
PLAIN = ["X-A", "X-B", "Set-Cookie", "Cache-Control", "ETag", "Location", "x-a"]
VALUES = ["a", "", "text/html", "x y", "a:b", " lead", "trail ", "\tt\t", "abc", "chunked", "close",
          "Tue, 15 Nov 1994 08:12:31 GMT", "v" * 1500, "application/json; charset=utf-8"]
CLVALS = ["5", "+7", "007", "0", "abc", "", "18446744073709551615", "18446744073709551616", "5 ", "-1", "1e3", "3"]
UTF8 = ["", "hello", "héllo", "€€", "\U0001F600 ok", "x" * 3000]


def gen(tier, rng):
    n = 4000 if tier == "quick" else 100000
    # the Date must be the CURRENT time: a response printed 2.6 s after an earlier one of the same process
    yield "rp new 200 - @3 3 - 1.1 - 0 ~ - stale=2600", {"stale_probe": 1}
    for _ in range(n):
        yield one(rng)


def pick_header(rng):
    k = rng.below(10)
    if k < 5:
        name = rng.choice(SPECIAL)
    elif k < 7:
        name = rng.choice(NEAR)
    else:
        name = rng.choice(PLAIN)
    if name.lower() == "content-length":
        val = rng.choice(CLVALS)
    else:
        val = rng.choice(VALUES)
    return name, val


def one(rng):
    ctor = rng.choice(["new", "new", "data", "string", "file", "empty", "newch", "emptyc"])
    st = rng.choice([200, 200, 404, 204, 304, 100, 101, 500, 299, 999])
    special = False
    mismatch = False
    hs = []
    body = b""
    ln = "-"
    if ctor in ("new", "newch"):
        for _ in range(rng.below(6)):
            hs.append(pick_header(rng))
        body = b"x" * rng.choice([0, 1, 5, 100])
        if rng.chance(1, 2):
            ln = str(len(body))
    elif ctor == "string":
        body = rng.choice(UTF8).encode("utf-8")
    elif ctor in ("data", "file"):
        body = bytes([rng.below(256) for _ in range(rng.choice([0, 1, 7, 300]))])
    ops = []
    for _ in range(rng.below(9)):
        k = rng.below(10)
        if ctor == "emptyc" and k >= 9:
            k = 8            # (a clone is taken of Response<io::Empty>: no with_data before it)
        if k < 7:
            n, v = pick_header(rng)
            hs2 = (n, v)
            ops.append("%s%s:%s" % ("A" if rng.chance(1, 3) else "H", hx(n), hx(v)))
            hs.append(hs2)
        elif k == 7:
            st = rng.choice([200, 201, 404, 503])
            ops.append("S%d" % st)
        elif k == 8:
            ops.append("T%d" % rng.choice([0, 1, 5, 32768]))
            if rng.chance(1, 2) and ctor != "emptyc":
                ops.append("B")          # boxed() after the threshold was set
        else:
            d = b"y" * rng.choice([0, 3, 10])
            l = rng.choice(["-", str(len(d)), str(len(d))])
            ops.append("D%s:%s" % (hx(d), l))
    if rng.chance(1, 6) and ctor != "emptyc":
        ops.insert(rng.below(len(ops) + 1), "B")
    for n, v in hs:
        ln_ = n.lower()
        if ln_ in ("connection", "trailer", "transfer-encoding", "upgrade", "content-length", "content-type", "date", "server"):
            special = True
        if ln_ == "content-length":
            mismatch = True
    head = 1 if mismatch else rng.below(2)
    up = hx("websocket") if rng.chance(1, 8) else "~"
    ver = rng.choice(["1.0", "1.1"])
    ctor_hs = hdrs([h for h in hs[:len(hs) - sum(1 for o in ops if o[0] in "HA")]]) if ctor in ("new", "newch") else "-"
    line = "rp %s %d %s %s %s %s %s - %d %s %s" % (ctor, st, ctor_hs, hx(body), ln, ";".join(ops) if ops else "-", ver, head, up,
                                                  rng.choice(["-", "1", "7,3"]))
    return line, {"ctor": ctor, "n_headers": min(len(hs), 12), "special": special, "upgrade": up != "~", "head": head}


def project(obs):
    return obs


def nontrivial(case, model_obs):
    import binascii
    f = case.split(" ")
    names = []
    for part in ([] if f[3] == "-" else f[3].split(",")):
        names.append(part.split(":")[0])
    for o in ([] if f[6] == "-" else f[6].split(";")):
        if o[0] == "H":
            names.append(o[1:].split(":")[0])
    sp = {"connection", "trailer", "transfer-encoding", "upgrade", "content-length", "content-type", "date", "server"}
    for n in names:
        try:
            if binascii.unhexlify(n).decode("latin-1").lower() in sp:
                return True
        except Exception:
            pass
    return f[1] == "string"
