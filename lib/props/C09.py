# C09 — message boundaries hold whether or not the application consumes the body.
from common import hx
from convgen import *
from cvbase import *

ID = "C09"
PROPS = "C09"
RULE = ("a body-bearing request (Content-Length on both sides of 1024, chunked in every size-line style, both headers) whose "
        "handler reads none / part / all of the body with buffer sizes around 1, 1024, 8192 and then responds, drops, panics or "
        "takes the raw writer (also as HTTP/1.0 keep-alive, and as an HTTP/2.0/3.0 request that the library answers with 505 itself), followed by 1..2 tagged requests; the oracle demands that exactly the tagged followers are "
        "delivered, in order, each answered with its own body; non-trivial = the body is non-empty; distinct = distinct lines")
ASSUMPTIONS = ["the client half-closes after sending; Unix sockets for bulk, a TCP sample"]

BODY_SIZES = [1, 2, 5, 100, 1023, 1024, 1025, 2048, 5000, 8191, 8192, 8193, 20000, 70000, 140000]
BUFS = [1, 2, 7, 1023, 1024, 1025, 4096, 8192, 65536]


def consumption(rng, size):
    k = rng.below(8)
    if k == 0:
        return [], "none"
    if k == 1:
        return [(None, rng.choice(BUFS[2:]))], "all"
    if k == 2:
        return [(rng.choice([1, 2, max(1, size // 2), max(1, size - 1)]), rng.choice(BUFS))], "part"
    if k == 3:
        return [(size, rng.choice(BUFS[2:]))], "exact-no-eof"
    if k == 4:
        return [(rng.choice([1, 3]), 1), (rng.choice([1, 10, 2000]), rng.choice(BUFS))], "part2"
    if k == 5:
        return [(1, 1)], "one-byte"
    # a zero-length read (an application quirk) ends the readable body but must not move the boundary
    if k == 6:
        return [(1, 0)], "zero-read"
    return [(rng.choice([1, 2, 5]), rng.choice([1, 2, 7])), (1, 0)], "part+zero-read"


def finisher(rng, tag):
    f = rng.below(8)
    if f < 4:
        st = rng.choice([200, 404])
        body = body_bytes("r" + tag, rng.choice([0, 3, 1500]))
        return respond_str(st, body, rng.chance(2, 3)), str(st), hx(body)
    if f < 6:
        return "D", "500", "~"
    if f == 6:
        return "P", "500", "~"
    return "W" + hx(b"HTTP/1.1 299 Raw\r\nContent-Length: 3\r\n\r\nraw"), "299", hx(b"raw")


def build(rng, i, transport="u", framing=None, size=None, style=None, tiny=False):
    fr = framing or rng.choice(["cl", "cl", "chunked", "chunked", "both"])
    size = size if size is not None else rng.choice(BODY_SIZES)
    tag = "b%d" % i
    body = body_bytes(tag, size)
    r = AReq(method=rng.choice(["POST", "PUT", "PATCH", "POST", "PUT", "CONNECT", "OPTIONS", "DELETE", "BREW", "TRACE", "GET"]), target="/" + tag,
             version="1.1", headers=[("Host", "h")], framing=fr,
             body=body, chunks=random_chunks(rng, size) if fr != "cl" else None, chunk_style=style if style is not None else rng.below(4))
    if rng.chance(1, 10):
        r.headers = r.headers + [("X-Pad-%d" % k, "v") for k in range(rng.choice([64, 65, 100, 300]))]
    r.te_first = rng.chance(1, 2)
    r.te_value = rng.choice(["chunked", "chunked", "Chunked", "CHUNKED", "chunKed"])
    hv = rng.below(8)
    if hv == 0:
        # HTTP/1.0 with keep-alive (any letter case): the connection goes on, so the boundary matters just as much
        r.version, r.conn = "1.0", rng.choice(["keep-alive", "Keep-Alive", "KEEP-ALIVE"])
    if tiny:
        r.chunks = [1] * size
    reads, ckind = consumption(rng, size)
    fin, st, rb = finisher(rng, tag)
    stream = r.render()
    acts = [action_str(reads, fin)]
    wu = [hx(r.target)]
    ws = [st]
    wrb = [rb]
    if hv == 2:
        # an expectation the library does not support: 417 and the connection is closed, whatever the framing of the body;
        # nothing of the body or behind it may be taken for a request
        r.expect = rng.choice(["bogus", "100-continue, other", "200-ok"])
        stream = r.render()
        acts, wu = [], []
        ws, wrb = ["417"], ["~"]
    if hv == 1:
        # the body-bearing request is one the library refuses itself (HTTP/2.0 or 3.0 -> 505): its body is skipped all the same
        r.version = rng.choice(["2.0", "3.0"])
        stream = r.render()
        acts, wu = [], []
        ws, wrb = ["505"], ["~"]
    nf = 1 + rng.below(2)
    for k in range(nf):
        if hv == 2:
            # (sent, but the connection has been closed by the 417)
            stream += AReq(method="GET", target="/f%d.%d" % (i, k), version="1.1", headers=[("Host", "h")]).render()
            continue
        t = "f%d.%d" % (i, k)
        f = AReq(method="GET", target="/" + t, version="1.1", headers=[("Host", "h")])
        if k == 0 and rng.chance(1, 3):
            # a second body-bearing request directly behind the first
            f = AReq(method="POST", target="/" + t, version="1.1", headers=[("Host", "h")], framing=rng.choice(["cl", "chunked"]),
                     body=body_bytes(t, rng.choice([3, 1500])))
            f.chunks = [len(f.body)] if f.framing == "chunked" else None
        stream += f.render()
        ab = body_bytes("a" + t, 7)
        acts.append(action_str([], respond_str(200, ab, True)))
        wu.append(hx(f.target))
        ws.append("200")
        wrb.append(hx(ab))
    extra = "wu=%s ws=%s wrb=%s we=closed fr=%s" % (j(wu), j(ws), j(wrb), fr)
    if not acts:
        acts = [action_str([], respond_str(200, b"never", True))]
    return cv_line(stream, acts, transport=transport, extra=extra), {"framing": fr, "size": size, "consumption": ckind, "variant": ["v10ka", "v505", "v417"][hv] if hv < 3 else "plain",
                                                                      "finish": fin[0], "followers": nf}


def gen(tier, rng):
    n = 1500 if tier == "quick" else 20000
    # the D4 witness first: chunked body, nothing read, respond
    yield build(Rng0(), 0, framing="chunked", size=5)
    for i in range(1, n):
        yield build(rng, i)
    # thousands of tiny chunks left unread
    for i in range(n + 200, n + 212):
        yield build(rng, i, framing="chunked", size=rng.choice([1500, 3000, 5000]), tiny=True)
    # chunked bodies that end with a trailer section: known finding D10 (reported as KNOWN-FINDING)
    for i in range(n + 100, n + 112):
        yield build(rng, i, framing="chunked", style=4)
    for i in range(n, n + 24):
        yield build(rng, i, transport="t")


class Rng0:
    """all-zero choices: the minimal case"""

    def below(self, n):
        return 0

    def choice(self, l):
        return l[0]

    def chance(self, a, b):
        return False


def nontrivial(case, mo):
    return True
