# C02 — request head fidelity: method, target, version and headers delivered as sent.
from common import hx
from convgen import *
from cvbase import *

ID = "C02"
PROPS = "C02"
RULE = ("well-formed request heads: method from the 9 standard + extension tokens (any case), targets incl. percent-escapes, "
        "dot segments, 900- and 1500-byte targets, HTTP/1.0 and 1.1, 0..64 headers with duplicates, case variants, empty values, "
        "inner blanks and colons, values of 300/1100/9000 bytes, proxy headers (X-Forwarded-For, Forwarded, X-Real-IP, Via), optional whitespace (SP/HTAB) around every value; pipelines of "
        "1..3; Unix sockets (peer address must be None) and TCP (peer address must equal the client's local address); the "
        "oracle compares what Request::method/url/http_version/headers/remote_addr report with the abstract request; "
        "non-trivial = at least one header; distinct = distinct lines")
ASSUMPTIONS = ["getpeername() is the source of remote_addr (checked at run time only)"]


FORWARDING = [("X-Forwarded-For", "203.0.113.7"), ("x-forwarded-for", "2001:db8::17, 10.0.0.1"), ("X-FORWARDED-FOR", "10.1.2.3"),
              ("Forwarded", "for=192.0.2.60;proto=http;by=203.0.113.43"), ("X-Real-IP", "198.51.100.4"), ("Via", "1.1 proxy.example"),
              ("X-Forwarded-Host", "other.example"), ("X-Forwarded-Proto", "https")]


def rand_head(rng, tag, big):
    nh = rng.choice([0, 1, 2, 3, 5, 8, 20, 64]) if big else rng.choice([0, 1, 2, 3, 5])
    hs = []
    for _ in range(nh):
        v = rng.choice(HVALUES + (["w" * 9000] if big and rng.chance(1, 10) else []))
        hs.append((rng.choice(HNAMES), v))
    if rng.chance(1, 5):
        # headers that proxies use to name the original client: they are ordinary headers, the peer address stays the socket's
        hs.insert(rng.below(len(hs) + 1), rng.choice(FORWARDING))
    if rng.chance(1, 6):
        # the same field name several times (here: Connection, with options that do not end the connection): each line is
        # delivered as its own header, in order
        for v in rng.choice([["keep-alive", "x-opt"], ["x-a", "x-b", ""], ["Keep-Alive", "keep-alive"]]):
            hs.insert(rng.below(len(hs) + 1), (rng.choice(["Connection", "connection", "CONNECTION"]), v))
    r = AReq(method=rng.choice(STD_METHODS + EXT_METHODS), target=random_target(rng) + "?t=" + tag,
             version=rng.choice(["1.1", "1.1", "1.0"]), headers=hs)
    if rng.chance(1, 5):
        # a request with a body the application reads (half of them announced with Expect): the head reported AFTER
        # the body has been asked for is still the head that was sent (the harness compares the two)
        r.framing = "cl"
        r.body = body_bytes(tag, rng.choice([5, 1025]))
        if rng.chance(1, 2):
            r.expect = rng.choice(["100-continue", "100-Continue"])
    if r.version == "1.0":
        if any(n.lower() == "connection" for n, _ in hs):
            r.version = "1.1"          # (the first Connection field decides persistence; keep the pipeline alive)
        else:
            r.conn = rng.choice(["keep-alive", "Keep-Alive"])
    colon_values = rng.chance(1, 5)
    if colon_values:
        # values that themselves contain colon + blank, sent WITHOUT optional whitespace behind the field's own colon
        for nm, v in rng.choice([[("X-Time", "12:30: 45")], [("Subject", "Re: hello: world"), ("X-Url", "http://a/b: c")]]):
            r.headers.append((nm, v))
    for i in range(len(r.all_headers())):
        if rng.chance(1, 2):
            r.ows[i] = (rng.choice(OWS), rng.choice(OWS))
    if colon_values:
        for i, (nm, v) in enumerate(r.all_headers()):
            if ": " in v:
                r.ows[i] = ("", "")
    return r


def hl(r):
    hs = r.all_headers()
    return "+".join("%s:%s" % (hx(n), hx(v.strip(" \t"))) for n, v in hs) if hs else "_"


def build(rng, i, transport):
    n = 1 + rng.below(3)
    stream = b""
    acts = []
    wm, wu, wv, wh = [], [], [], []
    for k in range(n):
        r = rand_head(rng, "%d.%d" % (i, k), big=(i % 3 == 0))
        stream += r.render()
        acts.append(action_str([(None, 4096)] if r.framing == "cl" else [], respond_str(200, b"ok", True)))
        wm.append(hx(r.method))
        wu.append(hx(r.target))
        wv.append(r.version)
        wh.append(hl(r))
    extra = "wu=%s wm=%s wv=%s wh=%s we=closed" % (j(wu), j(wm), j(wv), j(wh))
    return cv_line(stream, acts, transport=transport, extra=extra), {"n": n, "transport": transport,
                                                                     "headers_first": len(wh[0].split("+")) if wh[0] != "_" else 0}


def gen(tier, rng):
    n = 2500 if tier == "quick" else 60000
    for i in range(n):
        yield build(rng, i, "u")
    for i in range(n, n + (150 if tier == "quick" else 2000)):
        yield build(rng, i, "t")


def nontrivial(case, mo):
    return "wh=_ " not in case
