# C10 — malformed or unsupported requests never reach the application and never hang.
from common import hx
from convgen import *
from cvbase import *

ID = "C10"
PROPS = "C10"
RULE = ("pipelines of 1..4 requests whose k-th element is malformed/unsupported, every class (request line with <3 fields, "
        "unrecognised version token, header line without colon, non-ASCII byte in the request line or a header, unsupported "
        "Expect value (also on an upgrade request), HTTP/2.0 and HTTP/3.0 without and with a body: Content-Length 5..3000 or chunked) x every position k, others well-formed with tagged answers; plus followers after the "
        "offending request; non-trivial = all of them; distinct = distinct case lines")
ASSUMPTIONS = ["the client half-closes after sending, so 'never hang' is observable as end-of-stream within the time limit",
               "bulk runs use Unix sockets (no RST-after-unread-data effects); a TCP sample runs too"]

BAD_LINE = [b"GET /x", b"GET", b"", b"GET /x HTTP/1.2", b"GET /x http/1.1", b"GET /x HTTP/1.1x", b"GET /x HTTP/11", b"GET /x FOO",
            b"GET /x HTTP/1.", b"GET /x  HTTP/1.1", b"GET /x HTTP/2", b"GET /x HTTP/4.0", b"/x HTTP/1.1", b"GET\t/x\tHTTP/1.1",
            b"GET /x HTTP/1.01", b"GET /x HTTP/01.1", b"GET /x HTTP/+1.1", b"GET /x HTTP/1.+1", b"GET /x HTTP/2.00", b"GET /x HTTP/1.1.1",
            b"GET /x HTTP/ 1.1", b"GET /x HTTP/1,1", b"GET /x HTTP/-1.1", b"GET /x HTTPS/1.1",
            b"GET HTTP/1.1", b"POST HTTP/1.0", b" HTTP/1.1", b"GET /a b HTTP/1.1", b"HTTP/1.1"]
NO_COLON = [b"NoColonHere", b"Host example.com", b"X-A=1", b"novalue",
            # a line without a colon is no header field wherever it starts (there is no line folding)
            b" no-colon-here", b"\tfolded value", b"  two blanks then text"]
# an empty line where a request line is expected, followed by what would be a valid request
EMPTY_LINE = [b"\r\n", b"\r\n\r\n"]
NON_ASCII_LINE = [b"G\xc3\xa9T /x HTTP/1.1", b"GET /\xff HTTP/1.1", b"GET /x HTTP/1.1\x80"]
NON_ASCII_HDR = [b"X-A: caf\xc3\xa9", b"X-\xe9: 1", b"\x80: 1"]
BAD_EXPECT = [b"bogus", b"100-continue, other", b"200-ok", b"100continue", b"", b"100-continue;x"]
HIGH_VER = [b"HTTP/2.0", b"HTTP/3.0"]


def offending(cls, v, tag):
    t = ("/bad%s" % tag).encode()
    if cls == "line":
        return v + b"\r\nHost: h\r\n\r\n"
    if cls == "emptyline":
        return v
    if cls == "nocolon":
        return b"GET " + t + b" HTTP/1.1\r\nHost: h\r\n" + v + b"\r\nX-After: 1\r\n\r\n"
    if cls == "nonascii-line":
        return v + b"\r\nHost: h\r\n\r\n"
    if cls == "nonascii-hdr":
        return b"GET " + t + b" HTTP/1.1\r\n" + v + b"\r\n\r\n"
    if cls == "expect":
        return b"POST " + t + b" HTTP/1.1\r\nExpect: " + v + b"\r\nContent-Length: 3\r\n\r\nabc"
    if cls == "expect-chunked":
        # the refused request has a chunked body whose size lines look like request lines
        return (b"POST " + t + b" HTTP/1.1\r\nHost: h\r\nExpect: " + v + b"\r\nTransfer-Encoding: chunked\r\n\r\n" +
                b"2A ;x HTTP/1.1\r\n" + b"GET /smuggled HTTP/1.1\r\nHost: h\r\n\r\nxx"[:42] + b"\r\n0\r\n\r\n")
    if cls == "expect-nobody":
        # no body at all, on a request that ends the connection anyway (HTTP/1.0, or Connection: upgrade / close)
        line = [b" HTTP/1.0\r\nHost: h\r\n", b" HTTP/1.1\r\nHost: h\r\nConnection: Upgrade\r\nUpgrade: x\r\n",
                b" HTTP/1.1\r\nHost: h\r\nConnection: close\r\n", b" HTTP/1.1\r\nHost: h\r\n"][len(v) % 4]
        return b"GET " + t + line + b"Expect: " + v + b"\r\n\r\n"
    if cls == "expect-upgrade":
        # an unsupported expectation is refused on an upgrade request too
        conn = [b"Upgrade", b"keep-alive, Upgrade", b"upgrade"][len(v) % 3]
        return (b"GET " + t + b" HTTP/1.1\r\nHost: h\r\nConnection: " + conn + b"\r\nUpgrade: websocket\r\nExpect: " + v +
                b"\r\n\r\nRAWBYTES")
    if cls == "version":
        return b"GET " + t + b" " + v + b"\r\nHost: h\r\n\r\n"
    if cls == "version-body":
        # the refused request carries a body: it belongs to that request and must not be read as the next head
        ver, kind = v.split(b"|")
        if kind == b"chunked":
            return b"POST " + t + b" " + ver + b"\r\nHost: h\r\nTransfer-Encoding: chunked\r\n\r\n5\r\nhello\r\n3\r\nGET\r\n0\r\n\r\n"
        n = int(kind[2:])
        body = (b"GET /smuggled HTTP/1.1\r\nHost: h\r\n\r\n" * (n // 30 + 2))[:n]
        return b"POST " + t + b" " + ver + b"\r\nHost: h\r\nContent-Length: %d\r\n\r\n" % n + body
    raise ValueError(cls)


CLASSES = [("line", BAD_LINE, 400), ("emptyline", EMPTY_LINE, 400), ("nocolon", NO_COLON, 400), ("nonascii-line", NON_ASCII_LINE, None),
           ("nonascii-hdr", NON_ASCII_HDR, None), ("expect", BAD_EXPECT, 417), ("expect-upgrade", BAD_EXPECT[:4], 417), ("expect-chunked", BAD_EXPECT[:3], 417),
           ("expect-nobody", [b"bogus", b"200-ok", b"100-continue, other", b"100continue"], 417), ("version", HIGH_VER, 505),
           ("version-body", [b"HTTP/2.0|cl5", b"HTTP/2.0|cl37", b"HTTP/3.0|cl1024", b"HTTP/2.0|cl1025", b"HTTP/3.0|cl3000", b"HTTP/2.0|chunked"], 505)]


def good(tag, rng, small=True):
    fr = rng.choice(["none", "none", "cl"])
    size = rng.choice([1, 5, 100, 1024]) if fr == "cl" else 0
    r = AReq(method=rng.choice(["GET", "POST", "PUT"]), target="/ok%s" % tag, version="1.1", headers=[("Host", "h")],
             framing=fr, body=body_bytes(tag, size))
    return r


def build(rng, n, k, cls, v, status, transport="u", delay=None, eof=True):
    stream = b""
    acts = []
    wu = []
    ws = []
    wrb = []
    for i in range(n):
        tag = "%d" % i
        if i == k:
            stream += offending(cls, v, tag)
            if status is not None:
                ws.append(str(status))
                wrb.append("~")
            if not cls.startswith("version"):
                # whatever follows must not be interpreted
                stream += good("after", rng).render()
                break
        else:
            r = good(tag, rng)
            stream += r.render()
            body = body_bytes("answer" + tag, rng.choice([2, 10, 1500]))
            acts.append(action_str([], respond_str(200, body, rng.chance(1, 2))))
            wu.append(hx(r.target))
            ws.append("200")
            wrb.append(hx(body))
    if not acts:
        acts = [action_str([], respond_str(200, b"never", True))]
    # a client that keeps its sending side open must still get the definitive outcome promptly: the
    # connection stays open only after a 505 that was the last thing sent
    we = "closed" if (eof or not cls.startswith("version")) else "open"
    extra = "wu=%s ws=%s wrb=%s we=%s cls=%s" % (j(wu), j(ws), j(wrb), we, cls)
    return (cv_line(stream, acts, transport=transport, eof=eof, extra=extra + ("" if eof else " limit=2500")),
            {"class": cls, "position": k, "n": n, "client_half_closes": eof})


def gen(tier, rng):
    reps = 1 if tier == "quick" else 12
    for _ in range(reps):
        for cls, variants, status in CLASSES:
            for v in variants:
                for n in (1, 2, 3, 4):
                    for k in range(n):
                        yield build(rng, n, k, cls, v, status)
    # the client does not half-close: the outcome must arrive without it (prompt answer, no stall)
    for cls, variants, status in CLASSES:
        for v in variants[:3]:
            for n in (1, 2, 3):
                yield build(rng, n, n - 1, cls, v, status, eof=False)
                if n > 1:
                    yield build(rng, n, 0, cls, v, status, eof=False)
    # unsupported expectation, the client withholds the body until it has the verdict (that is what Expect is for)
    for v in BAD_EXPECT[:4]:
        for cl in (5, 1024, 1025, 70000):
            head = b"POST /badw HTTP/1.1\r\nExpect: " + v + b"\r\nContent-Length: %d\r\n\r\n" % cl
            for pre in (0, 2):
                stream = b""
                acts, wu, ws = [], [], []
                for i in range(pre):
                    r = good("w%d" % i, rng)
                    stream += r.render()
                    acts.append(action_str([], respond_str(200, b"ok", True)))
                    wu.append(hx(r.target))
                    ws.append("200")
                stream += head
                ws.append("417")
                if not acts:
                    acts = [action_str([], respond_str(200, b"never", True))]
                yield (cv_line(stream, acts, eof=False, extra="wu=%s ws=%s we=closed cls=expect-withheld limit=2500" % (j(wu), j(ws))),
                       {"class": "expect-withheld", "position": pre, "n": pre + 1, "client_half_closes": False})
    # a TCP sample
    for cls, variants, status in CLASSES:
        yield build(rng, 2, 1, cls, variants[0], status, transport="t")
        yield build(rng, 1, 0, cls, variants[-1], status, transport="t")


def nontrivial(case, mo):
    return True
