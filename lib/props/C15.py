# C15 — a client vanishing at any point is contained.
import re
from common import hx
from convgen import *
from cvbase import *
import props.GEN as G

ID = "C15"
PROPS = "C15"
RULE = ("conversations of 2..4 requests (every framing kind, small pre-buffered and streamed bodies) cut after a prefix of the "
        "client's bytes: every cut position for short conversations, cuts around every line end and body boundary otherwise; the "
        "client then closes its sending side (orderly), closes the socket, or resets the connection (TCP, SO_LINGER 0); the oracle "
        "demands: exactly the requests whose head and pre-buffered body lie wholly inside the prefix are delivered (orderly close), "
        "never one with an incomplete head or incomplete small body (all kinds), every respond() returns Ok, body reads end, the "
        "connection ends, no panic; the server must go on serving the next case")
ASSUMPTIONS = ["the errno the kernel reports for a vanished peer is one of those the library treats as 'client closed' "
               "(observed: EPIPE, ECONNRESET)", "after a reset the kernel may discard unread input: only the 'never incomplete' and "
               "'answering succeeds' clauses are judged for reset/full-close cases"]


def conv(rng, i):
    n = 2 + rng.below(3)
    reqs = []
    for k in range(n):
        tag = "%d.%d" % (i, k)
        fr = rng.choice(["none", "none", "cl", "cl", "chunked"])
        size = rng.choice([3, 100, 1024, 1025, 3000]) if fr != "none" else 0
        r = AReq(method=rng.choice(["GET", "POST", "PUT"]), target="/v" + tag, version="1.1", headers=[("Host", "h")], framing=fr,
                 body=body_bytes(tag, size), chunks=random_chunks(rng, size) if fr == "chunked" else None)
        if fr == "cl" and rng.chance(1, 4):
            r.expect = "100-continue"       # (announced, the body is sent right behind the head all the same)
        if k == n - 1 and rng.chance(1, 3):
            # the request that ends the connection: same demands (a small body cut short is NOT delivered)
            if rng.chance(1, 2):
                r.conn = rng.choice(["close", "Close"])
            else:
                r.version = "1.0"
        reqs.append(r)
    return reqs


def expected_delivered(reqs, cut):
    """targets of the requests the property wants delivered when the client sent only stream[:cut] and closed"""
    pos = 0
    out = []
    for r in reqs:
        head = r.render_head()
        body = r.render_body()
        if pos + len(head) > cut:
            break
        if r.framing == "cl" and 0 < len(r.body) <= 1024 and not r.expect:
            if pos + len(head) + len(body) > cut:
                break
        out.append(r.target)
        pos += len(head) + len(body)
        if pos > cut:
            # its streamed body was cut: delivered, reads end early; nothing can follow
            break
    return out


def cuts_for(rng, reqs, stream, tier):
    n = len(stream)
    pts = set([0, n])
    pos = 0
    for r in reqs:
        h = len(r.render_head())
        b = len(r.render_body())
        for d in (-2, -1, 0, 1, 2):
            pts.add(pos + h + d)
            pts.add(pos + h + b + d)
        pos += h + b
    for m in re.finditer(rb"\r\n", stream):
        pts.add(m.start())
        pts.add(m.start() + 1)
    pts = sorted(p for p in pts if 0 <= p <= n)
    if n <= 200 or tier == "thorough" and n <= 1500:
        pts = list(range(0, n + 1))
    elif len(pts) > 60:
        pts = sorted(set(pts[j] for j in [rng.below(len(pts)) for _ in range(60)]))
    return pts


def gen(tier, rng):
    nb = 25 if tier == "quick" else 250
    for i in range(nb):
        reqs = conv(rng, i)
        stream = b"".join(r.render() for r in reqs)
        big = rng.chance(1, 3)
        acts = [action_str([(None, 2048)], respond_str(200, body_bytes("a%d" % k, 70000 if big else 300), not big)) for k in range(len(reqs))]
        cuts = cuts_for(rng, reqs, stream, tier)
        if big and len(cuts) > 12:
            # every case line carries the 70 000-byte answers: a sample of the cut points, not all of them
            # (the thorough tier once wrote 28 GB of case files here)
            cuts = sorted(set(cuts[rng.below(len(cuts))] for _ in range(12)))
        for cut in cuts:
            want = expected_delivered(reqs, cut)
            kind = rng.choice(["half", "half", "half", "full", "rst", "unread"])
            tr = "t" if kind in ("rst", "unread") else "u"
            extra = "wu=%s we=closed cut=%d fin=%s" % (j(hx(t) for t in want), cut, kind)
            yield cv_line(stream[:cut], acts, transport=tr, extra=extra), {"close": kind, "delivered_expected": len(want)}


def project(obs):
    return obs


def agree(im, mo):
    if " wire=- " in im:
        # the client has gone: nothing can be read back; after a reset/full close the kernel may drop
        # unread input, so the delivered list may be a prefix of the model's
        a = re.findall(r"\[m=[^\]]*\]", im)
        b = re.findall(r"\[m=[^\]]*\]", mo)
        strip = lambda x: re.sub(r",rd=[^,]*,e=[^,\]]*", "", x)
        return [strip(x) for x in a] == [strip(x) for x in b][:len(a)]
    return im == mo


def oracle(case, obs):
    import annot
    if "fin=half" in case:
        return annot.check(case, obs)
    o = annot.parse_obs(obs)
    if o.special is not None:
        return "FAIL implementation: " + o.special[:200]
    if "PANIC" in obs:
        return "FAIL panic while serving a vanished client"
    if " recverr=" in obs:
        return "FAIL the application's receive call returned an error because one client's connection broke"
    a = annot.fields(case)
    want = [annot.unhex(x) for x in annot.lst(a["wu"])]
    got = [r.url for r in o.reqs]
    if got != want[:len(got)]:
        return "FAIL delivered %r although only %r were complete in what the client sent" % (got, want)
    for r in o.reqs:
        if r.end == "respond-err":
            return "FAIL respond() returned an error for a vanished client"
    return "OK"


def nontrivial(case, mo):
    return True
