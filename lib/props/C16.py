# C16 — header syntax that enables request smuggling is rejected, not interpreted.
from common import hx
from convgen import *
from cvbase import *

ID = "C16"
PROPS = "C16"
RULE = ("every offending header form (white space before the name: SP/HTAB, obsolete folding after another header; inside the "
        "name; between name and colon; a line of blanks only, last or in the middle of the head) on framing-relevant and ordinary names, and every Content-Length value class (empty, "
        "signed, non-digit, list, blank-separated, hex, decimal point, >= 2^64, 23 digits) with and without Transfer-Encoding, at "
        "every position of pipelines of 1..3 (also behind 100..1000 ordinary header fields), each followed by a would-be smuggled request; non-trivial = all; distinct = lines")
ASSUMPTIONS = ["the client half-closes after sending; Unix sockets for bulk, a TCP sample"]

WS_FORMS = []
for name, val in (("Content-Length", "5"), ("Transfer-Encoding", "chunked"), ("X-A", "1"), ("Host", "h")):
    WS_FORMS += [(" %s: %s" % (name, val), "ws-before"), ("\t%s: %s" % (name, val), "ws-before"),
                 ("%s : %s" % (name, val), "ws-before-colon"), ("%s\t: %s" % (name, val), "ws-before-colon"),
                 ("%s %s: %s" % (name[:3], name[3:], val), "ws-inside"), ("%s\t%s: %s" % (name[:1], name[1:], val), "ws-inside")]
# a line of blanks only: an empty obsolete-folding continuation, never the end of the head
WS_FORMS += [(" ", "ws-only"), ("\t", "ws-only"), ("  \t ", "ws-only"),
             (" \r\nContent-Length: 5", "ws-only-middle"), ("\t\r\nHost: h\r\nX-Last: z", "ws-only-middle")]
CL_VALUES = [("", "empty"), ("+5", "signed"), ("-5", "signed"), ("5, 5", "list"), ("5,5", "list"), ("5 5", "blank"), ("0x5", "hex"),
             ("5.0", "point"), ("five", "nondigit"), ("5a", "nondigit"), ("18446744073709551616", "overflow"),
             ("99999999999999999999999", "overflow"), ("+0", "signed"), ("１", "nondigit")]


def offending(form, kind, tag):
    t = "/bad%s" % tag
    if kind.startswith("ws"):
        # after an ordinary header, so that a leading blank is obsolete line folding
        return ("POST %s HTTP/1.1\r\nX-First: a\r\n%s\r\n\r\n" % (t, form)).encode("latin-1") + b"hello"
    return None


def padded(bad, count):
    """the offending request with `count` well-formed header fields inserted right behind its request line"""
    i = bad.index(b"\r\n") + 2
    return bad[:i] + b"".join(b"X-Pad-%d: v\r\n" % j for j in range(count)) + bad[i:]


def build(rng, n, k, bad, kind, transport="u"):
    stream = b""
    acts = []
    wu = []
    ws = []
    for i in range(n):
        tag = "%d" % i
        if i == k:
            stream += bad
            ws.append("400")
            # the would-be smuggled request
            stream += b"GET /smuggled HTTP/1.1\r\nHost: h\r\n\r\n"
            break
        r = AReq(method="GET", target="/ok%s" % tag, version="1.1", headers=[("Host", "h")])
        stream += r.render()
        acts.append(action_str([], respond_str(200, body_bytes("a" + tag, 5), True)))
        wu.append(hx(r.target))
        ws.append("200")
    if not acts:
        acts = [action_str([(None, 100)], respond_str(200, b"never", True))]
    else:
        acts.append(action_str([(None, 100)], respond_str(200, b"never", True)))
    extra = "wu=%s ws=%s we=closed cls=%s" % (j(wu), j(ws), kind)
    return cv_line(stream, acts, transport=transport, extra=extra), {"class": kind, "position": k}


def all_bad():
    for form, kind in WS_FORMS:
        yield offending(form, kind, "w"), kind
        if kind.startswith("ws-only"):
            # directly behind the request line
            yield ("GET /badfirst HTTP/1.1\r\n%s\r\nHost: h\r\n\r\n" % form).encode("latin-1"), kind + "-first"
    for v, kind in CL_VALUES:
        try:
            vb = v.encode("latin-1")
        except UnicodeEncodeError:
            continue
        yield b"POST /badcl HTTP/1.1\r\nHost: h\r\nContent-Length: " + vb + b"\r\n\r\nhello", "cl-" + kind
        yield (b"POST /badcl HTTP/1.1\r\nContent-Length: " + vb + b"\r\nTransfer-Encoding: chunked\r\n\r\n5\r\nhello\r\n0\r\n\r\n",
               "cl-" + kind + "+te")
        yield b"POST /badcl HTTP/1.1\r\ncontent-length:" + vb + b"\r\n\r\nhello", "cl-" + kind


def gen(tier, rng):
    reps = 1 if tier == "quick" else 10
    for _ in range(reps):
        for bad, kind in all_bad():
            for n in (1, 2, 3):
                for k in range(n):
                    yield build(rng, n, k, bad, kind)
    for bad, kind in list(all_bad())[::7]:
        yield build(rng, 2, 1, bad, kind, transport="t")
    # the same offending lines in a request whose version the library does not support: still 400, never 505-and-go-on
    for idx, (bad, kind) in enumerate(all_bad()):
        if idx % (2 if tier == "quick" else 1) == 0 and b" HTTP/1.1\r\n" in bad:
            yield build(rng, 2, rng.below(2), bad.replace(b" HTTP/1.1\r\n", rng.choice([b" HTTP/2.0\r\n", b" HTTP/3.0\r\n"]), 1), kind + "+v2")
    # the offending line comes after 100 / 150 / 1000 ordinary header fields
    for idx, (bad, kind) in enumerate(all_bad()):
        if idx % (3 if tier == "quick" else 1) == 0:
            yield build(rng, 2, rng.below(2), padded(bad, rng.choice([100, 101, 150, 1000])), kind + "+padded")


def nontrivial(case, mo):
    return True
