# GEN — not a property: broad random conversations used to validate the request-side model against
# the implementation (./check GEN). VERIF_CFG=a compares against the as-found model.
import os
from common import hx
from convgen import *

ID = "GEN"
PROPS = "C05"
EXEC = "cv"
RULE = "model validation stream"
ASSUMPTIONS = []
CFG = os.environ.get("VERIF_CFG", "f")


def gen(tier, rng):
    n = 3000 if tier == "quick" else 30000
    for i in range(n):
        yield one(rng, i)


def rand_req(rng, tag, allow_big=True):
    fr = rng.choice(["none", "none", "cl", "cl", "chunked", "both", "none"])
    size = rng.choice(SIZES if allow_big else SMALL_SIZES) if fr != "none" else 0
    body = body_bytes(tag, size)
    r = AReq(method=rng.choice(STD_METHODS + EXT_METHODS), target="/%s" % tag, version=rng.choice(["1.1", "1.1", "1.0"]),
             headers=random_headers(rng, 3), framing=fr, body=body,
             chunks=random_chunks(rng, size) if fr in ("chunked", "both") else None, chunk_style=rng.below(4))
    r.te_first = rng.chance(1, 2)
    if rng.chance(1, 10):
        r.conn = rng.choice(["close", "keep-alive", "Keep-Alive", "CLOSE", "x, close", "upgrade", "foo"])
    if r.version == "1.0" and rng.chance(2, 3):
        r.conn = "keep-alive"
    if rng.chance(1, 12):
        r.expect = rng.choice(["100-continue", "100-Continue"])
    if rng.chance(1, 6):
        r.headers.append(("TE", rng.choice(["chunked", "identity", "gzip, identity;q=0.5", "trailers"])))
    for i in range(len(r.all_headers())):
        if rng.chance(1, 4):
            r.ows[i] = (rng.choice(OWS), rng.choice(OWS))
    return r


def rand_action(rng, tag):
    reads = []
    k = rng.below(5)
    if k == 1:
        reads = [(None, rng.choice([1, 7, 1024, 4096, 65536]))]
    elif k == 2:
        reads = [(rng.choice([1, 3, 100, 1024, 5000]), rng.choice([1, 2, 1023, 1024, 1025, 8192]))]
    elif k == 3:
        reads = [(rng.choice([1, 10]), 4), (None, 3000)]
    f = rng.below(10)
    if f < 6:
        fin = respond_str(rng.choice([200, 200, 404, 204, 304]), body_bytes("r" + tag, rng.choice([0, 2, 10, 1500])), rng.chance(2, 3))
    elif f < 8:
        fin = "D"
    elif f == 8:
        fin = "W" + hx(b"HTTP/1.1 200 OK\r\nContent-Length: 3\r\n\r\nraw")
    else:
        fin = "P"
    return action_str(reads, fin)


MALFORMED = [b"GET /x\r\n\r\n", b"GET /x HTTP/1.2\r\n\r\n", b"GET /x HTTP/1.1\r\nNoColon\r\n\r\n", b"G\xc3\xa9T / HTTP/1.1\r\n\r\n",
             b"GET /x HTTP/1.1\r\nExpect: bogus\r\n\r\n", b"GET /x HTTP/2.0\r\n\r\n", b"GET /x HTTP/1.1\r\nX : y\r\n\r\n",
             b"GET /x HTTP/1.1\r\n X: y\r\n\r\n", b"POST /x HTTP/1.1\r\nContent-Length: +5\r\n\r\nhello",
             b"POST /x HTTP/1.1\r\nContent-Length: 5, 5\r\n\r\nhello", b"\r\n", b"GET /x HTTP/1.1\r\nA: b",
             b"POST /x HTTP/1.1\r\nTransfer-Encoding: chunked\r\n\r\nzz\r\nhello\r\n0\r\n\r\n",
             b"POST /x HTTP/1.1\r\nContent-Length: 10\r\n\r\nshort", b"GET /x HTTP/3.0\r\nConnection: close\r\n\r\n",
             b"GET /x HTTP/0.9\r\n\r\n", b"get  HTTP/1.1\r\n\r\n", b"GET /x HTTP/1.1 extra\r\n\r\n", b"  GET /x HTTP/1.1  \r\n\r\n"]


def one(rng, i):
    n = 1 + rng.below(4)
    stream = b""
    acts = []
    for k in range(n):
        tag = "%d.%d" % (i, k)
        if rng.chance(1, 10):
            stream += rng.choice(MALFORMED)
        else:
            stream += rand_req(rng, tag).render()
        acts.append(rand_action(rng, tag))
    if rng.chance(1, 10):
        stream = stream[:rng.below(len(stream) + 1)]
    return cv_line(stream, acts, cfg=CFG), {"n": n}


def project(obs):
    return obs


def nontrivial(case, mo):
    return True


def oracle(case, obs):
    return "OK"
