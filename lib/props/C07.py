# C07 — each complete request is delivered exactly once; no lost wake-ups.
from mqbase import *
import mqbase

ID = "C07"
PROPS = ["C07", "C07Glue"]
RULE = ("scripted mixes on the real MessagesQueue<u64> (through the cfg window): 1..3 receiver threads calling pop / try_pop / "
        "pop_timeout, pushes and unblocks released in script order with a grace period; plus window cases in which a request "
        "arrives T - 0.6 ms after a timed receive began while another receiver is blocked (the lost-wake-up window of repaired "
        "defect D2); the extracted model is explored over ALL interleavings consistent with the observed release order and "
        "completions and the implementation's outcome (per-call results, who stays blocked, queue content) must be one of the "
        "model's outcomes; the oracle checks exactly-once / order / no request queued while a receiver is blocked; non-trivial = "
        "at least one blocking call and one push; distinct = distinct lines; at the server API (`rv`): bursts on 1..4 (and 140) "
        "connections against mixes of recv / recv_timeout / try_recv / partly consumed iterators, also after an earlier burst of "
        "8 connections and the pool's 5 s idle period (surplus workers retired)")
ASSUMPTIONS = ["an awake thread is eventually scheduled (the settle phase waits until nothing changes for 120 ms)",
               "the grace period only orders releases; it never asserts that a call IS blocked"]
oracle = mqbase.oracle_c07


def rand_script(rng, i):
    nrecv = 1 + rng.below(3)
    ops = []
    v = 1
    n = 3 + rng.below(6)
    for _ in range(n):
        k = rng.below(10)
        if k < 4:
            ops.append("p%d" % (100 * i % 1000 + v))
            v += 1
        elif k < 5:
            ops.append("u")
        elif k < 8:
            ops.append("r%d.pop" % rng.below(nrecv))
        elif k < 9:
            ops.append("r%d.try" % rng.below(nrecv))
        else:
            ops.append("r%d.timed%d" % (rng.below(nrecv), rng.choice([5, 20])))
    return "mq %d %d %s" % (nrecv, rng.choice([300, 3000, 20000]), ",".join(ops)), {"nrecv": nrecv, "ops": n}


def window(T, early_us, k):
    # receiver 0 timed T, receiver 1 blocking; the request arrives early_us before the deadline
    return "mq 2 300 m,r0.timed%d,r1.pop,w%d,p%d" % (T, T * 1000 - early_us, k), {"window_us": early_us, "T": T}


def gen(tier, rng):
    reps = 12 if tier == "quick" else 60
    for r in range(reps):
        for early in (600, 300, 800, 1500, 5000):
            yield window(rng.choice([30, 20]), early, 7 + r)
    n = 150 if tier == "quick" else 3000
    for i in range(n):
        yield rand_script(rng, i)
    # scheduled runs of the real queue under the controllable runtime (hook H2): every synchronisation
    # operation is a scheduling point, virtual time; each trace is replayed in lock-step through the model
    ns = 60 if tier == "quick" else 1500
    for early in (294, 296, 299, 290, 250):
        for sd in range(ns):
            yield "mqs %d r0:timed30|r1:pop|p0:sleep%d,push7" % (sd * 7 + early, early), {"scheduled": "window-%d" % early}
    for x in gen_server(tier, rng):
        yield x
    for i in range(300 if tier == "quick" else 6000):
        sc = mqbase.rand_mqs(rng, allow_unblock=(i % 3 == 0))
        for sd in range(3):
            yield "mqs %d %s" % (rng.below(1 << 30), sc), {"scheduled": "random"}


def gen_server(tier, rng):
    """the receive calls of the server API, mixed, against bursts on several connections"""
    mixes = ["it1", "it1,recv1", "it2,try3", "recv2,timed2", "it1,it1,recv1", "try5", "timed3,it2", "it3"]
    for i in range(16 if tier == "quick" else 200):
        yield "rv %s %d %d %s" % (rng.choice(["u", "u", "t"]), rng.choice([1, 2, 4]), rng.choice([1, 3, 6]), rng.choice(mixes)), {"server_api": "mix"}
    # far more connections than any plausible built-in limit, each with one request
    yield "rv u 140 1 recv60,try20,timed20", {"server_api": "many-connections"}
    # after a burst of more than four connections and the pool's idle period (surplus workers retire), what arrives
    # must still be delivered
    yield "rv u 2 3 recv3,try2,timed2 pre=8:5600", {"server_api": "after-idle-retirement"}
    if tier != "quick":
        yield "rv t 3 2 recv2,it3 pre=12:5600", {"server_api": "after-idle-retirement"}


def project(o):
    return o


def nontrivial(case, mo):
    return ".pop" in case or ".timed" in case or ":pop" in case or ":timed" in case
