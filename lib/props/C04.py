# C04 — every response is a well-formed, self-delimiting message with exactly the body.
from common import hx, hdrs

ID = "C04"
PROPS = "C04"
EXEC = "rp"
RULE = ("grid sample over status {100,101,199,200,204,205,299,304,404,500,599,999} x body length "
        "{0,1,5,1023,1024,1025,8191,8192,8193,16384,16385,32767,32768,32769,70000} x declared/undeclared x threshold "
        "{0,1,len-1,len,len+1,default,2^64-1} x version {1.0,1.1} x HEAD x TE header variants x reader piece sizes x "
        "0..3 application headers; non-trivial = a body is actually sent (not HEAD, not 1xx/204/304, length > 0); "
        "distinct = distinct case lines")
ASSUMPTIONS = [
    "declared lengths are correct or absent, header names are tokens and values free of CR/LF (the property's domain)",
    "status codes 100..999 (outside that range the status line is not HTTP; reported as skipped)",
]
LENS = [0, 1, 5, 1023, 1024, 1025, 8191, 8192, 8193, 16384, 16385, 32767, 32768, 32769, 70000]
SMALL = [0, 1, 5, 26, 100, 1023, 1024, 1025]
STS = [100, 101, 199, 200, 200, 200, 204, 205, 299, 304, 404, 500, 599, 999]
TES = [None, None, "chunked", "identity", "identity;q=0", "chunked;q=0", "gzip", "identity;q=0.5, chunked;q=0.5",
       "chunked;q=0.3, identity;q=0.7", "trailers", "chunked;q=1e0", "identity;q=abc"]
PIECES = ["-", "-", "1", "7,3", "1024", "8192", "8191,2", "10000", "8193"]
HDRS = [("X-A", "1"), ("Content-Type", "text/html"), ("Cache-Control", "no-cache, private"), ("X-Long", "v" * 1100),
        ("Content-Type", "a/b"), ("Set-Cookie", "a=b; Path=/"), ("X-Empty", ""),
        # names the library manages itself, in several letter cases: they must never reach the wire
        ("Transfer-Encoding", "chunked"), ("transfer-encoding", "chunked"), ("TRANSFER-ENCODING", "gzip"),
        ("connection", "close"), ("Connection", "keep-alive"), ("trailer", "X-T"), ("upgrade", "h2c"),
        # a length the application supplies that is no length: documented to have no effect, so it must not reach the wire
        ("Content-Length", "unknown"), ("content-length", "-1"), ("Content-Length", "99999999999999999999"), ("CONTENT-LENGTH", "12.0")]


def gen(tier, rng):
    n = 5000 if tier == "quick" else 120000
    MAXU = 2 ** 64 - 1
    # systematic part: every length x declared x (threshold relation) x version x head with a default response
    for ln in LENS:
        for declared in (True, False):
            for thr in (0, 1, max(ln - 1, 0), ln, ln + 1, None, MAXU):
                for ver in ("1.0", "1.1"):
                    for head in (0, 1):
                        if ln > 9000 and head == 0 and thr not in (ln, ln + 1, None) and tier == "quick":
                            continue
                        yield mk(200, ln, declared, thr, ver, head, None, "-", []), {"part": "systematic", "len": ln}
    for _ in range(n):
        big = rng.chance(1, 8)
        ln = rng.choice(LENS) if big else rng.choice(SMALL)
        st = rng.choice(STS)
        declared = rng.chance(1, 2)
        thr = rng.choice([0, 1, max(ln - 1, 0), ln, ln + 1, None, None, MAXU])
        ver = rng.choice(["1.0", "1.1"])
        head = 1 if rng.chance(1, 4) else 0
        te = rng.choice(TES)
        pieces = rng.choice(PIECES)
        if ln > 9000 and pieces == "1":
            pieces = "7,3"
        hs = [rng.choice(HDRS) for _ in range(rng.below(4))]
        yield mk(st, ln, declared, thr, ver, head, te, pieces, hs), {"part": "random", "status": st, "len": ln,
                                                                  "declared": declared, "head": head, "version": ver,
                                                                  "pieces": pieces, "te": str(te)}


def mk(st, ln, declared, thr, ver, head, te, pieces, hs):
    ops = "-" if thr is None else "T%d" % thr
    rh = "-" if te is None else hdrs([("TE", te)])
    return "rp new %d %s @%d %s %s %s %s %d ~ %s" % (st, hdrs(hs), ln, str(ln) if declared else "-", ops, ver, rh, head, pieces)


def project(obs):
    return obs.split(" ")[0]


def nontrivial(case, model_obs):
    f = case.split(" ")
    st = int(f[2])
    return f[9] == "0" and not (100 <= st <= 199 or st in (204, 304)) and f[4] != "@0"
