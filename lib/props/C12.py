# C12 — connection persistence is decided correctly and the connection closes in order.
from common import hx
from convgen import *
from cvbase import *

ID = "C12"
PROPS = "C12"
RULE = ("pipelines of 1..4 requests; one of them carries version x Connection value from the grid {1.0, 1.1} x {absent, close, Close, "
        "keep-alive, Keep-Alive, upgrade, 'x, close', 'keep-alive, close', x-closed, foo, keep-alive;x, UPGRADE, ''}; every "
        "position; followed by further well-formed requests (which must be ignored after a final request and served otherwise) "
        "and optionally by garbage; client half-closing or not; the oracle (from the property text: 'contains' = substring) demands "
        "delivery up to and including the first final request, an answer for each, then end-of-stream, or continued service")
ASSUMPTIONS = ["FIN versus RST when unread input remains is kernel behaviour; a reset after the data counts as end-of-stream"]

CONN = [None, "close", "Close", "keep-alive", "Keep-Alive", "upgrade", "x, close", "keep-alive, close", "x-closed", "foo",
        "keep-alive;x", "UPGRADE", "", "close, keep-alive", "Keep-Alive, Upgrade"]


def build(rng, n, k, ver, conn, eof, garbage, transport="u"):
    stream = b""
    acts = []
    wu, ws = [], []
    ended = False
    for i in range(n):
        tag = "%d" % i
        r = AReq(method="GET", target="/r%s" % tag, version="1.1", headers=[("Host", "h")])
        if i == k:
            r.version = ver
            r.conn = conn
        elif rng.chance(1, 5):
            r.version = "1.0"
            r.conn = "keep-alive"
        stream += r.render()
        if not ended:
            body = body_bytes("a" + tag, 5)
            acts.append(action_str([], respond_str(200, body, True)))
            wu.append(hx(r.target))
            ws.append("200")
            if not r.persists():
                ended = True
    if garbage:
        stream += b"\x00\xffgarbage without end"
        if not ended:
            # garbage after persistent requests: a non-ASCII line ends the connection silently
            ended = True
    we = "closed" if (ended or eof) else "open"
    extra = "wu=%s ws=%s we=%s ver=%s" % (j(wu), j(ws), we, ver)
    return (cv_line(stream, acts or [action_str([], "D")], transport=transport, eof=eof, extra=extra + ("" if eof else " limit=2500")),
            {"version": ver, "connection": str(conn), "position": k, "n": n, "half_close": eof, "garbage": garbage})


def gen(tier, rng):
    reps = 1 if tier == "quick" else 8
    for _ in range(reps):
        for ver in ("1.0", "1.1"):
            for conn in CONN:
                for n in (1, 2, 3):
                    for k in range(n):
                        yield build(rng, n, k, ver, conn, True, rng.chance(1, 4))
                yield build(rng, 3, 1, ver, conn, False, False)
                yield build(rng, 2, 1, ver, conn, False, False)
    for ver in ("1.0", "1.1"):
        for conn in CONN[:8]:
            yield build(rng, 2, 0, ver, conn, True, False, transport="t")


def nontrivial(case, mo):
    return True
