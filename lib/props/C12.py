# C12 — connection persistence is decided correctly and the connection closes in order.
from common import hx
from convgen import *
from cvbase import *
import plbase

ID = "C12"
EXEC = ("cv", "pl")
IMPL_SHARDS = 8
PROPS = ["C12", "C12Close"]
RULE = ("pipelines of 1..4 requests; one of them carries version x Connection value from the grid {1.0, 1.1} x {absent, close, Close, "
        "keep-alive, Keep-Alive, upgrade, 'x, close', 'keep-alive, close', x-closed, foo, keep-alive;x, UPGRADE, ''}; every "
        "position; followed by further well-formed requests (which must be ignored after a final request and served otherwise) "
        "and optionally by garbage; client half-closing or not; the oracle (from the property text: 'contains' = substring) demands "
        "delivery up to and including the first final request, an answer for each, then end-of-stream, or continued service; "
        "a final request whose announced body (streamed or expected) the client withholds and the application never asks for: "
        "the answer and then end-of-stream must still reach a client that keeps its own sending side open; a client that "
        "half-closes inside a streamed body; a keep-alive client that pauses 5.6 s (thorough: up to 10 s) between two requests")
ASSUMPTIONS = ["FIN versus RST when unread input remains is kernel behaviour; a reset after the data counts as end-of-stream"]

CONN = [None, "close", "Close", "keep-alive", "Keep-Alive", "upgrade", "x, close", "keep-alive, close", "x-closed", "foo",
        "keep-alive;x", "UPGRADE", "", "close, keep-alive", "Keep-Alive, Upgrade", "TE, Keep-Alive", "x,keep-alive", "x , close", "TE, upgrade"]


def build(rng, n, k, ver, conn, eof, garbage, transport="u"):
    stream = b""
    acts = []
    wu, ws = [], []
    ended = False
    for i in range(n):
        tag = "%d" % i
        r = AReq(method="GET", target="/r%s" % tag, version="1.1", headers=[("Host", "h")])
        if i == k:
            r.version = ver
            r.conn = conn
        elif rng.chance(1, 5):
            r.version = "1.0"
            r.conn = "keep-alive"
        stream += r.render()
        if not ended:
            body = body_bytes("a" + tag, 5)
            acts.append(action_str([], respond_str(200, body, True)))
            wu.append(hx(r.target))
            ws.append("200")
            if not r.persists():
                ended = True
    if garbage:
        stream += b"\x00\xffgarbage without end"
        if not ended:
            # garbage after persistent requests: a non-ASCII line ends the connection silently
            ended = True
    we = "closed" if (ended or eof) else "open"
    extra = "wu=%s ws=%s we=%s ver=%s" % (j(wu), j(ws), we, ver)
    return (cv_line(stream, acts or [action_str([], "D")], transport=transport, eof=eof, extra=extra + ("" if eof else " limit=2500")),
            {"version": ver, "connection": str(conn), "position": k, "n": n, "half_close": eof, "garbage": garbage})


def gen(tier, rng):
    reps = 1 if tier == "quick" else 8
    for _ in range(reps):
        for ver in ("1.0", "1.1"):
            for conn in CONN:
                for n in (1, 2, 3):
                    for k in range(n):
                        yield build(rng, n, k, ver, conn, True, rng.chance(1, 4))
                yield build(rng, 3, 1, ver, conn, False, False)
                yield build(rng, 2, 1, ver, conn, False, False)
    for ver in ("1.0", "1.1"):
        for conn in CONN[:8]:
            yield build(rng, 2, 0, ver, conn, True, False, transport="t")
    for x in gen_close(tier, rng):
        yield x
    for x in gen_final_withheld(tier, rng):
        yield x
    # the client closes its sending side in the middle of a streamed body (Content-Length > 1024): whatever the handler
    # does, the answer and then end-of-stream must follow
    from convgen import cv_line, action_str
    for i in range(10 if tier == "quick" else 100):
        cl = rng.choice([1025, 5000, 70000])
        sent = rng.choice([0, 1, 500, cl - 1])
        head = ("POST /hc%d HTTP/1.1\r\nHost: h\r\nContent-Length: %d\r\n\r\n" % (i, cl)).encode()
        pre = b"" if rng.chance(1, 2) else ("GET /hp%d HTTP/1.1\r\nHost: h\r\n\r\n" % i).encode()
        reads = rng.choice([[], [(None, 4096)], [(10, 10)]])
        acts, wu, ws = [], [], []
        if pre:
            acts.append(action_str([], respond_str(200, b"ok", True)))
            wu.append(hx("/hp%d" % i))
            ws.append("200")
        fin, st = rng.choice([("D", "500"), ("R200:6f6b:1", "200")])
        acts.append(action_str(reads, fin))
        wu.append(hx("/hc%d" % i))
        ws.append(st)
        extra = "wu=%s ws=%s we=closed limit=3000" % (j(wu), j(ws))
        yield cv_line(pre + head + b"y" * sent, acts, eof=True, extra=extra), {"scenario": "half-close-inside-streamed-body"}
    # a persistent connection stays usable behind a large request body that the application did not read (more than
    # 64 KiB, chunked or with a length): the request behind it is served
    for i in range(4 if tier == "quick" else 24):
        size = rng.choice([70000, 140000, 200000])
        fr = rng.choice(["chunked", "cl"])
        r = AReq(method="POST", target="/ub%d" % i, version="1.1", headers=[("Host", "h")], framing=fr, body=body_bytes("ub%d" % i, size),
                 chunks=[size // 2, size - size // 2] if fr == "chunked" else None)
        f2 = AReq(method="GET", target="/ua%d" % i, version="1.1", headers=[("Host", "h")])
        reads = rng.choice([[], [(10, 10)]])
        extra = "wu=%s,%s ws=200,200 we=closed" % (hx(r.target), hx(f2.target))
        yield (cv_line(r.render() + f2.render(), [action_str(reads, respond_str(200, b"ok", True)), action_str([], respond_str(200, b"ok", True))], extra=extra),
               {"scenario": "unread-large-body-then-next"})
    # a connection-ending request answered with a body far larger than the socket buffers, read by a slow client: every
    # byte must arrive before the end of the stream (the writing side must keep blocking after the reading side is gone)
    for i, (ver, conn, tr) in enumerate([("1.1", "close", "u"), ("1.0", None, "u")] + ([("1.1", "Close", "t"), ("1.0", None, "u")] if tier != "quick" else [])):
        body = body_bytes("big%d" % i, 1500000)
        head = ("GET /big%d HTTP/%s\r\nHost: h\r\n%s\r\n" % (i, ver, "Connection: %s\r\n" % conn if conn else "")).encode()
        pre = ("GET /bp%d HTTP/1.1\r\nHost: h\r\n\r\n" % i).encode()
        extra = "wu=%s,%s ws=200,200 wrb=%s,%s we=closed rdelay=400 limit=15000" % (hx("/bp%d" % i), hx("/big%d" % i), hx(b"ok"), hx(body))
        yield (cv_line(pre + head, [action_str([], respond_str(200, b"ok", True)), action_str([], respond_str(200, body, True))],
                       transport=tr, eof=(i % 2 == 0), extra=extra), {"scenario": "large-answer-slow-reader"})
    # a persistent connection on which the client pauses for longer than any plausible built-in time-out before its next
    # request: nothing ended the connection, so the next request must be served (and nothing unsolicited may arrive)
    for i in range(1 if tier == "quick" else 4):
        a = ("GET /idle%da HTTP/1.1\r\nHost: h\r\n\r\n" % i).encode()
        b = ("GET /idle%db HTTP/1.1\r\nHost: h\r\n\r\n" % i).encode()
        extra = "wu=%s,%s ws=200,200 we=closed seg=%d gap=%d limit=12000" % (hx("/idle%da" % i), hx("/idle%db" % i), len(a), 5600 + 1500 * i)
        yield (cv_line(a + b, [action_str([], respond_str(200, b"ok", True))] * 2, transport="u" if i % 2 == 0 else "t", extra=extra),
               {"scenario": "long-idle-keep-alive"})
    # long-lived keep-alive connections: hundreds of small requests, nothing asks for a close
    for n, hdr in ((250, ""), (40, "User-Agent: Mozilla/5.0 (X11; Linux x86_64) AppleWebKit/537.36\r\nAccept: text/html,application/xhtml+xml;q=0.9,*/*;q=0.8\r\nAccept-Language: en-US,en;q=0.5\r\nCookie: " + "k=v; " * 40 + "\r\n")):
        stream = b"".join(("GET /k%d HTTP/1.1\r\nHost: h\r\n%s\r\n" % (i, hdr)).encode() for i in range(n))
        wu = [hx("/k%d" % i) for i in range(n)]
        extra = "wu=%s we=closed" % j(wu)
        yield cv_line(stream, [action_str([], respond_str(200, b"ok", True))], extra=extra), {"scenario": "long-keep-alive", "n": n}


def gen_final_withheld(tier, rng):
    """the final request of the connection announces a body that the library does not pre-read (Content-Length > 1024, or
    Expect: 100-continue) and the client withholds it, waiting for the verdict with its sending side open; the application
    answers without asking for the body: the answer must arrive AND the server must close its sending side (the client
    reads to end-of-stream)"""
    from convgen import cv_line, action_str
    for i in range(16 if tier == "quick" else 160):
        expect = rng.chance(1, 2)
        cl = rng.choice([5, 1024, 1025, 70000]) if expect else rng.choice([1025, 5000, 70000])
        ver, conn = rng.choice([("1.1", "close"), ("1.1", "Close"), ("1.0", None), ("1.1", "x, close")])
        part = rng.choice([0, 0, 10]) if not expect else 0          # nothing, or the first bytes of the body
        head = "POST /fw%d HTTP/%s\r\nHost: h\r\n%s%sContent-Length: %d\r\n\r\n" % (
            i, ver, "Connection: %s\r\n" % conn if conn else "", "Expect: 100-continue\r\n" if expect else "", cl)
        stream = b""
        acts, wu, ws = [], [], []
        for k in range(rng.below(3)):
            stream += ("GET /fp%d.%d HTTP/1.1\r\nHost: h\r\n\r\n" % (i, k)).encode()
            acts.append(action_str([], respond_str(200, b"ok", True)))
            wu.append(hx("/fp%d.%d" % (i, k)))
            ws.append("200")
        stream += head.encode() + b"x" * part
        fin, st = rng.choice([("D", "500"), ("R403:6e6f:1", "403"), ("R200:6f6b:1", "200")])
        acts.append(action_str([], fin))
        wu.append(hx("/fw%d" % i))
        ws.append(st)
        extra = "wu=%s ws=%s we=closed limit=2500" % (j(wu), j(ws))
        yield cv_line(stream, acts, eof=False, extra=extra), {"scenario": "final-request-body-withheld", "expect": int(expect)}


def gen_close(tier, rng):
    """the client half-closes after its last request while the requests are still unanswered; they are answered
    by separate threads in permuted order; the server must not close before the last one is answered"""
    for i in range(40 if tier == "quick" else 400):
        n = 2 + rng.below(3)
        order = list(range(n))
        rng.shuffle(order)
        line, tags = plbase.build(rng, 9000 + i, n, order, 20000, kinds=["respond", "respond", "drop", "raw", "chunked"])
        tags["scenario"] = "close-after-last-answer"
        yield line + " noearly=1", tags


def nontrivial(case, mo):
    return True


def oracle(case, obs):
    import annot, re
    v = annot.check(case, obs)
    if v != "OK":
        return v
    if " noearly=1" in case:
        m = re.search(r"early_eof=(\d) closed_at_end=(\d)", obs)
        if not m:
            return "FAIL no close observation"
        if m.group(1) == "1":
            return "FAIL the server closed its sending side while a received request was still unanswered"
        if m.group(2) != "1":
            return "FAIL the server did not close its sending side after the last answer although the client had closed"
    return "OK"
