# C11 — pipelined requests are read ahead without waiting for earlier answers.
import re
from common import hx
from convgen import *
import swbase
from swbase import AFTER_PREFIXES, model_line_after, agree_after

ID = "C11"
PROPS = ["C11", "C01Lockstep", "C06Check"]
EXEC = ("ra", "srs")
IMPL_SHARDS = 8
PER_SHARD = 16
RULE = ("pipelines of 2..8 requests with every combination of body kinds (none, Content-Length 1 / 1023 / 1024 pre-buffered, 1025 / "
        "5000 streamed, chunked, Expect: 100-continue with a small body, an explicit Content-Length: 0, HTTP/1.0 with keep-alive "
        "in any letter case, a request that ends the connection); round 1: how many requests can be obtained while NONE "
        "is answered; then the application reads the holder's body to its end / reads part of it / responds / drops / takes the "
        "raw writer; round 2: which successors become obtainable; the oracle (from the property text) demands all requests up to "
        "and including the first one with a streamed body in round 1, the rest (up to the next streamed one) in round 2 unless the "
        "body was only partly read; non-trivial = the pipeline contains a streamed body; distinct = distinct lines. SCHEDULED RUNS of the "
        "real reader chain (`srs`): SequentialReaderBuilder / SequentialReader of src/util/sequential.rs (the connection's reader "
        "handed from request to request) under the controllable runtime (hook H2); 2..7 readers over 1..4 threads plus the "
        "connection thread, reads with buffers of 0..5 bytes over sources of 0..40 bytes, drops; the recorded labels are replayed "
        "in lock-step through Conc/SeqWriter.v (the chain has the same shape: `Write i d` read as `reader i consumed d`): a reader "
        "reads or is dropped only when every earlier one was dropped, the bytes obtained reader after reader are a prefix of the "
        "source, blocked operations are disabled in the model, scripts accepted by the extracted checker end with nothing blocked")
ASSUMPTIONS = ["the harness waits 3 s for the number of requests the model expects and probes 100 ms for one more: slowness can only "
               "hide a difference"]

KINDS = ["none", "cl1", "cl1023", "cl1024", "cl1025", "cl5000", "chunked", "expect5", "none", "cl1024", "cl5000close",
         "cl0", "cl0", "v10ka", "v10ka", "cl7close", "conn2up", "cl70000", "cl140000"]


def mk(rng, kind, tag):
    if kind == "none":
        return AReq(method=rng.choice(["GET", "DELETE"]), target="/" + tag, version="1.1", headers=[("Host", "h")]), False
    if kind == "cl5000close":
        # a streamed request that also ends the connection: nothing behind it is ever parsed
        r = AReq(method="POST", target="/" + tag, version="1.1", headers=[("Host", "h")], framing="cl", body=body_bytes(tag, 5000), conn="close")
        return r, "last"
    if kind == "conn2up":
        # two Connection fields; only the FIRST one counts (for persistence and for upgrade alike): an ordinary request
        r = AReq(method="GET", target="/" + tag, version="1.1", headers=[("Host", "h"), ("Connection", "keep-alive"), ("Connection", "Upgrade"),
                                                                         ("Upgrade", "x")])
        return r, False
    if kind == "cl7close":
        # a pre-buffered request that ends the connection: it is obtainable at once, nothing behind it is ever parsed
        r = AReq(method="POST", target="/" + tag, version="1.1", headers=[("Host", "h")], framing="cl", body=body_bytes(tag, 7), conn="close")
        return r, "end"
    if kind == "cl0":
        # an explicit Content-Length: 0 (with any method): there is no body to wait for
        return AReq(method=rng.choice(["POST", "GET", "PUT"]), target="/" + tag, version="1.1", headers=[("Host", "h")], framing="cl", body=b""), False
    if kind == "v10ka":
        # HTTP/1.0 with keep-alive in any letter case and a small (pre-buffered) or empty body: the connection goes on
        n = rng.choice([0, 1, 100, 1024])
        r = AReq(method="POST", target="/" + tag, version="1.0", headers=[("Host", "h")], framing="cl", body=body_bytes(tag, n),
                 conn=rng.choice(["keep-alive", "Keep-Alive", "KEEP-ALIVE", "Keep-Alive, x", "TE, Keep-Alive", "x,keep-alive", "x , Keep-Alive , y"]))
        return r, False
    if kind.startswith("cl"):
        n = int(kind[2:])
        return AReq(method="POST", target="/" + tag, version="1.1", headers=[("Host", "h")], framing="cl", body=body_bytes(tag, n)), n > 1024
    if kind == "chunked":
        n = rng.choice([5, 3000])
        return AReq(method="POST", target="/" + tag, version="1.1", headers=[("Host", "h")], framing="chunked", body=body_bytes(tag, n),
                    chunks=random_chunks(rng, n)), True
    r = AReq(method="POST", target="/" + tag, version="1.1", headers=[("Host", "h")], framing="cl", body=body_bytes(tag, 5), expect="100-continue")
    return r, True


def build(rng, i, kinds, act):
    stream = b""
    targets, streamed = [], []
    for k, kd in enumerate(kinds):
        r, s = mk(rng, kd, "a%d.%d" % (i, k))
        stream += r.render()
        targets.append(r.target)
        streamed.append(s)
    # the property's expectation
    first = next((k for k, s in enumerate(streamed) if s), None)
    if first is None:
        w1, w2 = targets, []
    elif streamed[first] == "end":
        w1, w2 = targets[:first + 1], []
    else:
        w1 = targets[:first + 1]
        rest_t, rest_s = targets[first + 1:], streamed[first + 1:]
        nxt = next((k for k, s in enumerate(rest_s) if s), None)
        w2 = rest_t if nxt is None else rest_t[:nxt + 1]
        if act.startswith("part") or streamed[first] == "last":
            w2 = []
    j = lambda l: ",".join(hx(x) for x in l) if l else "-"
    return ("ra u %s %s w1=%s w2=%s" % (hx(stream), act, j(w1), j(w2)),
            {"n": len(kinds), "first_streamed": str(first), "action": act[:5]})


def gen(tier, rng):
    n = 250 if tier == "quick" else 4000
    for i in range(n):
        k = 2 + rng.below(7)
        kinds = [rng.choice(KINDS) for _ in range(k)]
        if i % 5 == 0:
            kinds = [rng.choice(["none", "cl1", "cl1023", "cl1024", "cl0", "v10ka"]) for _ in range(k)]      # everything obtainable at once
        act = rng.choice(["all", "allv", "awayR", "awayD", "awayW", "part3", "part1"])
        yield build(rng, i, kinds, act)
    for x in swbase.gen_srs(tier, rng):
        yield x


def hint(case, model_obs):
    m = re.match(r"a1=(\S+) a2=(\S+)", model_obs)
    if not m:
        return case
    c = lambda x: 0 if x == "-" else len(x.split(","))
    return case + " exp1=%d exp2=%d" % (c(m.group(1)), c(m.group(2)))


def project(o):
    return o


def oracle(case, obs):
    if case.startswith("srs "):
        return swbase.oracle(case, obs)
    m = re.match(r"a1=(\S+) a2=(\S+)", obs)
    if not m:
        return "FAIL implementation: " + obs[:200]
    w1 = re.search(r" w1=(\S+)", case).group(1)
    w2 = re.search(r" w2=(\S+)", case).group(1)
    if m.group(1) != w1:
        return "FAIL while none was answered %d request(s) could be obtained, the property demands %d" % (
            0 if m.group(1) == "-" else len(m.group(1).split(",")), 0 if w1 == "-" else len(w1.split(",")))
    if m.group(2) != w2:
        return "FAIL after the application acted on the request holding the reader %d further request(s) became obtainable, the property demands %d" % (
            0 if m.group(2) == "-" else len(m.group(2).split(",")), 0 if w2 == "-" else len(w2.split(",")))
    return "OK"


def nontrivial(case, mo):
    if case.startswith("srs "):
        return swbase.nontrivial(case, mo)
    return " w2=-" not in case
