# C20 — shutdown stops accepting but not answering; idle workers are reclaimed.
import re
from tpbase import *
import tpbase

ID = "C20"
PROPS = "C20"
PER_SHARD = 12
RULE = ("fresh servers (Unix and TCP): clients connect and send requests, the application receives and HOLDS some of them, the "
        "server is dropped at varying points (no client, idle clients, held requests, right after an accept), then a new client "
        "tries to connect (a refusal must come within 1 s), the UNIX socket path is checked, the listening socket must have "
        "disappeared from the kernel's socket table within 1 s (also with a pipelined request queued behind a held one of the "
        "same connection, and with 40..70 (thorough: 300) idle connections open), a UNIX server whose accept loop had already "
        "ended still removes its path, and the held requests are answered "
        "and must reach their clients; compared with the extracted accept-loop/Drop model run eagerly; and the real TaskPool: a "
        "burst of never-ending tasks, release, then the 5 s idle period: the pool's thread count must be back at or below the "
        "minimum (4) although 8..30 threads existed, and later dispatches must still start; non-trivial = the server is dropped "
        "while something is held or the burst exceeds the minimum")
ASSUMPTIONS = ["connect() to a closed listener is refused, a removed socket path cannot be connected to, the self-connection made by "
               "Drop succeeds: operating-system facts", "the idle period is the crate's 5000 ms; the check waits 6200 ms"]


def gen(tier, rng):
    reps = 2 if tier == "quick" else 10
    for _ in range(reps):
        for kind in ("u", "t"):
            yield "sd %s d,x1,p" % kind, {"scenario": "drop-idle"}
            yield "sd %s c1,r,d,x9,p,a" % kind, {"scenario": "held-1"}
            yield "sd %s c1,c2,c3,r,r,r,d,w%d,x9,p,a" % (kind, rng.choice([0, 5, 50])), {"scenario": "held-3"}
            yield "sd %s c1,r,a,c2,r,d,p,x3,a" % kind, {"scenario": "answered-then-held"}
            yield "sd %s c1,r,c2,r,d,a,x5,p" % kind, {"scenario": "answer-before-probe"}
            yield "sd %s c1,r,d,w300,a,x7" % kind, {"scenario": "answer-late"}
            # the listening socket itself (as the kernel lists it) must be gone, not only unreachable
            yield "sd %s l,d,l,x1,p" % kind, {"scenario": "listener-closed-idle"}
            yield "sd %s c1,c2,r,r,l,d,l,p,x4,a" % kind, {"scenario": "listener-closed-held"}
            # a pipelined request still queued behind a held one of the same connection when the server is dropped
            yield "sd %s C1,w%d,r,d,w200,x9,l,p,a" % (kind, rng.choice([50, 150])), {"scenario": "queued-behind-held"}
            yield "sd %s C1,w100,r,c2,w50,d,x9,l,a,p" % kind, {"scenario": "queued-behind-held-2"}
    # many idle keep-alive connections are open when the server is dropped (far above the pool's minimum): refusal and
    # the closed listener must not depend on any of them going away
    for kind, n in (("u", 40), ("t", 70)) if tier == "quick" else (("u", 40), ("t", 70), ("u", 300), ("t", 150)):
        cs = ",".join("c%d" % k for k in range(2, n + 1))
        # (the first request is received and held before the others connect: which of several concurrent connections gets
        # its request queued first is not determined)
        yield "sd %s c1,w60,r,%s,w100,d,x999,l,p,a" % (kind, cs), {"scenario": "dropped-with-%d-open-connections" % n}
    # a TCP server bound to one specific address that is not 127.0.0.1 (127.0.0.2 is loopback too on Linux)
    yield "sd 2 d,x1,l", {"scenario": "bound-to-127.0.0.2"}
    # (the listener must go away by itself, not only once somebody connects)
    yield "sd 2 d,l,x1", {"scenario": "bound-to-127.0.0.2"}
    yield "sd 2 c1,r,d,l,x9,a", {"scenario": "bound-to-127.0.0.2"}
    yield "sd t d,l,x1", {"scenario": "listener-closed-before-any-attempt"}
    yield "sd u d,l,p,x1", {"scenario": "listener-closed-before-any-attempt"}
    yield "sd 2 c1,r,d,w50,x9,l,a", {"scenario": "bound-to-127.0.0.2"}
    # two configured addresses: the first that binds is the server's only listener; whatever was configured, nothing
    # accepts on any of them after the drop
    yield "sd m y1,c1,r,d,w100,y2,x3,l,a", {"scenario": "two-configured-addresses"}
    yield "sd m d,y1,x2,l", {"scenario": "two-configured-addresses"}
    # a burst of requests that the application never receives, the clients leave, the idle period passes: the worker
    # threads are reclaimed (at most accept thread + 4 workers remain), and none is left once the server is dropped
    yield "sd t %s,w300,k,w5600,n,d,w300,n" % ",".join("c%d" % k for k in range(1, 21)), {"scenario": "unreceived-burst-then-idle"}
    yield "sd u %s,w300,k,w300,d,w300,n" % ",".join("c%d" % k for k in range(1, 13)), {"scenario": "unreceived-burst-then-drop"}
    # a UNIX-socket server whose accept loop has already ended (listener handed in non-blocking: accept fails at once):
    # dropping the server must still remove the socket path
    yield "sd n w150,d,p,x1", {"scenario": "accept-loop-already-ended"}
    yield "sd n d,p,x1", {"scenario": "accept-loop-already-ended"}
    # the real pool under the controllable runtime: bursts, release, the idle period in VIRTUAL time, later
    # dispatches, dropping the pool; lock-step replay through the model
    ns = 40 if tier == "quick" else 600
    # (`q` after `rel`: every worker has gone idle before virtual time passes, whatever the schedule)
    for sc in ("q,d8,o,rel,o,s5200,o,d2,o", "q,d6,o,rel,q,s5200,o,drop", "q,d12,o,rel,q,s2000,d3,o,rel,q,s5200,o", "q,d5,o,drop", "d2,q,rel,q,s5200,o,s5200,o,d1,o"):
        for sd in range(ns):
            yield "tps %d %s" % (sd * 11 + len(sc), sc), {"scenario": "scheduled " + sc}
    # idle workers are reclaimed (the pool part)
    yield "tp z20,d8,o,rel,o,idle6200,o,d2,o", {"scenario": "idle-reclaim-8"}
    if tier != "quick":
        yield "tp z20,d30,o,rel,o,idle6200,o,d5,o", {"scenario": "idle-reclaim-30"}
        yield "tp z20,d3,o,rel,o,idle6200,o", {"scenario": "idle-reclaim-3"}


def oracle_tps(case, obs):
    o = tpbase.tps_obs(obs)
    if o is None:
        return "FAIL implementation: " + obs[:200]
    ops = case.split(" ")[2].split(",")
    k = 0
    slept = False
    for op in ops:
        if op.startswith("s") and op[1:].isdigit() and int(op[1:]) >= 5000:
            slept = True
        elif op == "o" and k < len(o["obs"]):
            todo, waiting, active = o["obs"][k]
            k += 1
            if slept and waiting > 4:
                return "FAIL %d pool threads are still idle after the idle period (minimum is 4; %d threads alive)" % (waiting, active)
            if todo != 0:
                return "FAIL %d task(s) queued at quiescence" % todo
    if o["dead"] and "drop" in ops:
        return "FAIL threads are blocked for ever after the pool was dropped"
    return "OK"


def oracle(case, obs):
    if case.startswith("tps "):
        return oracle_tps(case, obs)
    f = case.split(" ")
    if f[0] == "sd":
        if "failed" in obs or "r=none" in obs:
            return "FAIL set-up step failed: " + obs[:200]
        for m in re.finditer(r"x(\d+)=(\w+)", obs):
            if m.group(2) != "refused":
                return "FAIL a connection attempt after drop(server) was not refused within 1 s (%s)" % m.group(2)
        m = re.search(r"thr=(\d+)>(\d+)", obs)
        if m:
            return "FAIL %s threads of the server are still alive (at most %s may be) after the burst was over%s" % (
                m.group(1), m.group(2), " and the server was dropped" if m.group(2) == "0" else " and the idle period had passed")
        for mm in re.finditer(r"y(\d+)=(\w+)", obs):
            if mm.group(2) != "refused":
                return "FAIL the second configured address accepts connections (%s)" % mm.group(2)
        if "p=there" in obs:
            return "FAIL the UNIX socket path still exists after drop(server)"
        ls = re.findall(r"l=(\w+)", obs)
        ops = f[2].split(",")
        seen_d = False
        k = 0
        for op in ops:
            if op == "d":
                seen_d = True
            elif op == "l":
                if k < len(ls) and seen_d and ls[k] != "closed":
                    return "FAIL the listening socket is still open 1 s after drop(server) (the kernel still lists it)"
                if k < len(ls) and not seen_d and ls[k] != "listening":
                    return "FAIL set-up: no listening socket found before drop(server)"
                k += 1
        for m in re.finditer(r"a=(\S+)", obs):
            if m.group(1) == "-":
                continue
            for x in m.group(1).split(","):
                k, st = x.split(":")
                if st != "200":
                    return "FAIL the request of client %s, held by the application, could not be answered after the server was dropped (%s)" % (k, st)
        return "OK"
    ol = obs_list(obs)
    if not ol:
        return "FAIL implementation: " + obs[:200]
    # observations: after burst, after release, after the idle period, [after later dispatches]
    burst = int(re.search(r"d(\d+)", f[1]).group(1))
    s0 = ol[0]
    if int(s0[0]) != burst:
        return "FAIL burst: %s of %d started" % (s0[0], burst)
    after_idle = ol[2]
    if after_idle[4] is not None and int(after_idle[4]) > 4:
        return "FAIL %s pool threads are still alive after the idle period (minimum is 4, %d existed)" % (after_idle[4], int(ol[1][4] or 0))
    if len(ol) > 3:
        m = re.findall(r"d(\d+)", f[1])
        total = sum(int(x) for x in m)
        if int(ol[3][0]) != total or int(ol[3][1]) != 0:
            return "FAIL after the idle period %s of %d tasks started, %s queued" % (ol[3][0], total, ol[3][1])
    return "OK"


def project(o):
    return strip_impl(o)


def nontrivial(case, mo):
    return ",r," in case or case.startswith("tp")
