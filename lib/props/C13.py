# C13 — behaviour depends on the bytes sent, not on how they were segmented.
import re
from common import hx
from convgen import *
from cvbase import *
import props.GEN as G

ID = "C13"
PROPS = "C13"
RULE = ("conversations of 1..3 requests (all framing kinds, small and streamed bodies, chunked in four styles, malformed "
        "tails) delivered unsplit and then with the same bytes split: at every single split point (short streams), at the "
        "positions around every CR/LF and around the head/body boundary, one byte per segment, random k-way splits, with a pause "
        "between segments; families: a streamed body left unread with pipelined followers (cuts in the body, at and around the "
        "request boundary), a protocol upgrade whose payload arrives with or behind the head; the oracle is metamorphic: delivered requests (heads, bodies as read, read results) and the "
        "response stream must equal those of the unsplit delivery; the model (which reads the logical stream) must agree with "
        "every delivery; non-trivial = at least one split inside the stream; distinct = distinct lines")
ASSUMPTIONS = ["a pause of 1 ms between writes makes each segment its own read on the server side (Unix sockets; a TCP sample "
               "with TCP_NODELAY)", "the code sets no read timeout, so pauses themselves have no effect (408 path unreachable)"]
IMPL_SHARDS = 16
_base = {}


def base_conv(rng, i):
    n = 1 + rng.below(3)
    stream = b""
    acts = []
    for k in range(n):
        tag = "%d.%d" % (i, k)
        r = G.rand_req(rng, tag, allow_big=(i % 4 == 0))
        if i % 3 == 0 and r.framing == "cl" and len(r.body) > 0:
            r.expect = "100-continue"      # a client that announces the expectation but sends the body at once
        if r.framing != "none" and len(r.body) > 3000 and i % 4 != 0:
            r.body = r.body[:300]
            r.chunks = [len(r.body)] if r.chunks else None
        stream += r.render()
        acts.append(G.rand_action(rng, tag).replace("/P", "/D"))
    if rng.chance(1, 8):
        stream += rng.choice(G.MALFORMED)
    return stream, acts


def splits_for(rng, stream, tier):
    n = len(stream)
    out = []
    if n <= 1:
        return out
    pts = set()
    # around every CR / LF and the end of every head
    for m in re.finditer(rb"[\r\n]", stream):
        for d in (0, 1):
            if 0 < m.start() + d < n:
                pts.add(m.start() + d)
    pts = sorted(pts)
    if len(pts) > 24:
        pts = [pts[j] for j in sorted(set(rng.below(len(pts)) for _ in range(24)))]
    # always: exactly at, just before and just after the end of every head
    for m in re.finditer(rb"\r\n\r\n", stream):
        for d in (3, 4, 5):
            if 0 < m.start() + d < n and m.start() + d not in pts:
                pts.append(m.start() + d)
    for p in pts:
        out.append(([p], "single@crlf"))
    if n <= 160 or tier == "thorough" and n <= 600:
        for p in range(1, n):
            out.append(([p], "single@every"))
    if n <= 400:
        out.append(([1] * n, "one-byte"))
    for _ in range(3):
        k = 2 + rng.below(6)
        cuts = sorted(set(1 + rng.below(n - 1) for _ in range(k)))
        segs = [b - a for a, b in zip([0] + cuts, cuts + [n])]
        out.append((segs, "random-k"))
    out.append(([7] * (n // 7 + 1), "seven"))
    out.append(([1023, 1, 1024, 1025], "around-1024"))
    return out


def gen(tier, rng):
    nb = 40 if tier == "quick" else 400
    for i in range(nb):
        stream, acts = base_conv(rng, i)
        base = cv_line(stream, acts)
        yield base, {"kind": "unsplit"}
        for segs, kind in splits_for(rng, stream, tier):
            first = segs[0] if len(segs) == 1 else None
            yield segcase(base, segs), {"kind": kind}
    # a streamed body (Content-Length > 1024) that the application does not read to its end, with pipelined requests
    # behind it: what is left of the body is discarded by the library, and where it stops must not depend on how much of
    # the following requests had already arrived
    for i in range(8 if tier == "quick" else 80):
        size = rng.choice([1025, 1500, 2048, 3000, 9000, 20000])
        body = body_bytes("u%d" % i, size)
        r = AReq(method="POST", target="/unread%d" % i, version="1.1", headers=[("Host", "h")], framing="cl", body=body)
        reads = rng.choice([[], [], [(10, 10)], [(size // 2, 512)], [(1, 1)]])
        fin = rng.choice([respond_str(200, b"ok", True), respond_str(413, b"big", True), "D"])
        stream = r.render()
        acts = [action_str(reads, fin)]
        if rng.chance(1, 3):
            # the body is read to its end with gathered reads whose slices reach beyond what is left of it
            acts = ["%d@4096*3/%s" % (size + 500, fin)]
        b1 = len(stream)
        for k in range(1 + rng.below(3)):
            f = AReq(method="GET", target="/next%d.%d" % (i, k), version="1.1", headers=[("Host", "h")])
            stream += f.render()
            acts.append(action_str([], respond_str(200, body_bytes("n%d" % k, 4), True)))
        base = cv_line(stream, acts)
        yield base, {"kind": "unsplit", "family": "unread-streamed-body"}
        n = len(stream)
        h = len(r.render_head())
        cuts = [[h], [h + 1], [h + size // 2], [b1 - 1], [b1], [b1 + 1], [b1 + 10], [1024], [1023], [h, size // 2, size - size // 2]]
        for c in cuts:
            if all(0 < x for x in c) and sum(c) < n:
                yield segcase(base, c), {"kind": "unread-body-cut", "family": "unread-streamed-body"}
        for segs, kind in splits_for(rng, stream, tier)[-5:]:
            yield segcase(base, segs), {"kind": kind, "family": "unread-streamed-body"}
    # a protocol upgrade: everything behind the head belongs to the new protocol, whether it arrived together with the
    # head (and sits in the connection's read buffer) or later
    for i in range(6 if tier == "quick" else 60):
        payload = body_bytes("ping%d" % i, rng.choice([5, 40, 1500]))
        pre = rng.below(2)
        stream = b""
        acts = []
        for k in range(pre):
            stream += AReq(method="GET", target="/pre%d.%d" % (i, k), version="1.1", headers=[("Host", "h")]).render()
            acts.append(action_str([], respond_str(200, b"ok", True)))
        r = AReq(method="GET", target="/up%d" % i, version="1.1", headers=[("Host", "h"), ("Upgrade", "x")], framing="upgrade", body=payload)
        r.conn = rng.choice(["Upgrade", "keep-alive, Upgrade"])
        h0 = len(stream) + len(r.render_head())
        stream += r.render()
        acts.append(action_str([], "U" + hx(b"x")))
        base = cv_line(stream, acts)
        yield base, {"kind": "unsplit", "family": "upgrade"}
        n = len(stream)
        for c in ([h0], [h0 - 1], [h0 + 1], [h0 + 3], [h0 - 2, 2], [h0, 2], [n - 1]):
            if all(x > 0 for x in c) and sum(c) < n:
                yield segcase(base, c), {"kind": "upgrade-cut", "family": "upgrade"}
        for segs, kind in splits_for(rng, stream, tier)[-4:]:
            yield segcase(base, segs), {"kind": kind, "family": "upgrade"}
    # HTTP/1.0 without keep-alive (the request that ends the connection) with a streamed body that arrives in pieces
    for i in range(3 if tier == "quick" else 20):
        size = rng.choice([1025, 3000, 20000])
        body = body_bytes("h10-%d" % i, size)
        head = ("POST /h10-%d HTTP/1.0\r\nHost: h\r\n%sContent-Length: %d\r\n\r\n" % (i, rng.choice(["", "Connection: x-foo\r\n"]), size)).encode()
        base = cv_line(head + body, [action_str([(None, 4096)], respond_str(200, b"ok", True))])
        yield base, {"kind": "unsplit", "family": "http10-streamed"}
        for c in ([len(head)], [len(head) + 1], [len(head), size // 2], [len(head) + size - 1]):
            yield segcase(base, c) .replace(" gap=1", " gap=30"), {"kind": "http10-cut", "family": "http10-streamed"}
    # the HTTP/2 connection preface sent to this HTTP/1 server (505 for "PRI * HTTP/2.0", then "SM" is a malformed request
    # line): every cut inside it
    pri = b"PRI * HTTP/2.0\r\n\r\nSM\r\n\r\n"
    base = cv_line(pri, [action_str([], respond_str(200, b"never", True))])
    yield base, {"kind": "unsplit", "family": "h2-preface"}
    for c in range(1, len(pri)):
        yield segcase(base, [c]), {"kind": "single@every", "family": "h2-preface"}
    yield segcase(base, [1] * len(pri)), {"kind": "one-byte", "family": "h2-preface"}
    # one long pause (longer than any plausible built-in time-out) between two segments: inside a request line, between
    # two requests, inside a streamed body
    for i, (stream, cutpos) in enumerate([
            (b"GET /slow1 HTTP/1.1\r\nHost: h\r\n\r\nGET /slow2 HTTP/1.1\r\nHost: h\r\n\r\n", 38),
            (b"GET /slow3 HTTP/1.1\r\nHost: h\r\n\r\nGET /slow4 HTTP/1.1\r\nHost: h\r\n\r\n", 33)] +
            ([(b"POST /slow5 HTTP/1.1\r\nHost: h\r\nContent-Length: 2000\r\n\r\n" + b"b" * 2000, 500)] if tier != "quick" else [])):
        base = cv_line(stream, [action_str([(None, 4096)], respond_str(200, b"ok", True))] * 2)
        yield base, {"kind": "unsplit", "family": "long-pause"}
        yield base + " seg=%d gap=5600 limit=12000" % cutpos, {"kind": "long-pause", "family": "long-pause"}
    # TCP sample
    for i in range(nb, nb + 6):
        stream, acts = base_conv(rng, i)
        base = cv_line(stream, acts, transport="t")
        yield base, {"kind": "unsplit"}
        for segs, kind in splits_for(rng, stream, tier)[:6]:
            yield segcase(base, segs), {"kind": kind + "-tcp"}
    # known finding D11: a chunk whose payload is not followed by CR LF
    torn = b"POST /torn HTTP/1.1\r\nTransfer-Encoding: chunked\r\n\r\n5\r\nhelloXX"
    base = cv_line(torn, ["*@64/R200:6f6b:1"])
    yield base, {"kind": "unsplit"}
    yield base + " seg=%d gap=2" % (len(torn) - 5), {"kind": "torn-chunk"}


def segcase(base, segs):
    """the case line for one segmentation; the time allowed grows with the number of pauses (thousands of tiny segments of
    a large stream take seconds to send: that is not a hang)"""
    line = base + " seg=%s gap=1" % ",".join(str(x) for x in segs)
    if len(segs) > 500:
        line += " limit=%d" % (4000 + 5 * len(segs))
    return line


def strip_seg(case):
    return re.sub(r" seg=\S+| gap=\S+| limit=\S+", "", case)


def oracle(case, obs):
    k = strip_seg(case)
    if " seg=" not in case:
        _base[k] = obs
        if obs.startswith("n="):
            return "OK"
        return "FAIL implementation: " + obs[:200]
    b = _base.get(k)
    if b is None:
        return "SKIP"
    if b != obs:
        return "FAIL the same bytes delivered in segments %s give a different outcome than delivered at once" % (
            re.search(r"seg=(\S+)", case).group(1)[:60])
    return "OK"


def nontrivial(case, mo):
    return " seg=" in case
