# C14 — no client input aborts the process, panics a thread or forces huge allocation.
import re
from common import hx
from convgen import *
from cvbase import *

ID = "C14"
PROPS = "C14"
ORACLE_ON_SKIP = True
RERUN_AFTER_DEATH = True
IMPL_SHARDS = 8
RULE = ("adversarial streams: Content-Length from 0 to 2^64+ (incl. 2^24, 2^30, 2^40, 2^63, 2^64-1) with few body bytes, chunk "
        "sizes up to 20 hex digits, 10^4 headers, lines of 100 KB..1 MB, NUL/control/non-ASCII bytes, truncations at every class "
        "of position, header lines with empty / blank-only values, TE headers with up to 60 entries mixing NaN/inf/negative q values, random bytes; x handler reads none / "
        "some / all (also with Read::read_to_end) x respond / drop / panic; a client that leaves without reading the server's bytes inside a streamed body (the "
        "server's read then fails with a reset, not with end-of-stream); HTTP/0.9 requests answered in every way; observed: process death, panic hook (library panics), largest single allocation "
        "request of the process while the case runs; non-trivial = all; distinct = distinct lines")
ASSUMPTIONS = ["allocation requests above 16 GiB are refused by the harness allocator (as an exhausted machine would), so "
               "a client-sized allocation shows up as process death; smaller ones through the recorded maximum",
               "bound used by the oracle: largest single allocation <= 2 MiB + 16 x (bytes in the case line)"]

HUGE = [2 ** 24, 2 ** 30, 2 ** 32, 2 ** 40, 2 ** 62, 2 ** 63, 2 ** 64 - 1, 2 ** 64, 2 ** 70, 1099511627776, 4294967295, 16777217]


def handler(rng):
    k = rng.below(6)
    # (the last one: Read::read_to_end, written 32*0 in the case line: it must not size its buffer by the DECLARED length)
    reads = [[], [(None, 4096)], [(1, 1)], [(10, 3)], [(None, 1)], "E"][k]
    f = rng.below(4)
    fin = [respond_str(200, b"ok", True), "D", "P", respond_str(200, body_bytes("x", 40000), False)][f]
    if reads == "E":
        return "*@32*0/" + fin, {"reads": k, "finish": fin[0]}
    return action_str(reads, fin), {"reads": k, "finish": fin[0]}


def te_list(rng, n):
    qs = ["NaN", "nan", "inf", "-inf", "0.5", "1", "0", "-1", "1e3", "0.001", "+NaN", "abc", "", "infinity", "1e-50", "3.4e39"]
    names = ["chunked", "identity", "gzip", "x", "trailers"]
    return ", ".join("%s;q=%s" % (rng.choice(names), rng.choice(qs)) for _ in range(n))


def build(rng, kind, i):
    tag = "k%d" % i
    follower = b"GET /after HTTP/1.1\r\nHost: h\r\n\r\n"
    if kind == "head-identity":
        # a HEAD request that forces identity framing, answered with a body of unknown length
        v10 = rng.chance(1, 2)
        s = (b"HEAD /h HTTP/1.0\r\nConnection: keep-alive\r\n\r\n" if v10 else b"HEAD /h HTTP/1.1\r\nTE: identity\r\n\r\n") + follower
        st = rng.choice([200, 204, 304, 404])
        return cv_line(s, [action_str([], respond_str(st, body_bytes("x", rng.choice([0, 5, 40000])), False))], extra="c14=1"), {"kind": kind}
    s = b""
    if kind == "huge-cl":
        n = rng.choice(HUGE)
        have = rng.choice([0, 5, 1024, 1025, 3000])
        s = ("POST /%s HTTP/1.1\r\nHost: h\r\nContent-Length: %d\r\n\r\n" % (tag, n)).encode() + body_bytes(tag, have)
    elif kind == "huge-chunk":
        d = rng.choice(["ffffffffffffffff", "7fffffffffffffff", "10000000000000000", "fffffffffffffffffffff", "100000000", "ffffffffff",
                        "0000000000000000000000000000005"])
        have = rng.choice([0, 5, 2000])
        s = ("POST /%s HTTP/1.1\r\nTransfer-Encoding: chunked\r\n\r\n%s\r\n" % (tag, d)).encode() + body_bytes(tag, have)
    elif kind == "many-headers":
        n = rng.choice([100, 1000, 10000])
        s = ("GET /%s HTTP/1.1\r\n" % tag).encode() + b"".join(b"X-%d: v\r\n" % k for k in range(n)) + b"\r\n" + follower
    elif kind == "long-line":
        n = rng.choice([100000, 1000000])
        w = rng.below(3)
        if w == 0:
            s = b"GET /" + b"a" * n + b" HTTP/1.1\r\n\r\n" + follower
        elif w == 1:
            s = b"GET /x HTTP/1.1\r\nX: " + b"v" * n + b"\r\n\r\n" + follower
        else:
            s = b"G" * n
    elif kind == "control":
        junk = bytes([rng.below(256) for _ in range(rng.choice([1, 5, 40]))])
        w = rng.below(4)
        if w == 0:
            s = b"GET /" + junk.replace(b"\n", b"") + b" HTTP/1.1\r\n\r\n"
        elif w == 1:
            s = b"GET /x HTTP/1.1\r\nX: " + junk.replace(b"\n", b"") + b"\r\n\r\n"
        elif w == 2:
            s = b"POST /x HTTP/1.1\r\nTransfer-Encoding: chunked\r\n\r\n" + junk
        else:
            s = junk
    elif kind == "empty-values":
        # header lines with nothing, or only blanks, behind the colon
        hs = [rng.choice([b"X-Empty:", b"X-Empty: ", b"X-Empty:\t \t", b"Host:", b"Accept:   ", b"Content-Type:", b"Connection:", b"TE:",
                          b"Expect:", b"Upgrade:", b":", b": x", b"X-A:\x00"]) for _ in range(rng.choice([1, 2, 5]))]
        s = ("GET /%s HTTP/1.1\r\nHost: h\r\n" % tag).encode() + b"\r\n".join(hs) + b"\r\n\r\n" + follower
    elif kind == "short-lines":
        line = rng.choice([b"GET HTTP/1.1", b"POST HTTP/1.0", b"/x HTTP/1.1", b"GET  HTTP/1.1", b" HTTP/1.1", b"GET ", b" ", b"HTTP/1.1", b"GET /x",
                           b"GET\tHTTP/1.1", b"G HTTP/0.9", b"GET HTTP/2.0", b"  ", b"GET /a b HTTP/1.1", b"GET /a  HTTP/1.1"])
        s = line + b"\r\nHost: h\r\n\r\n" + follower
    elif kind == "te-params":
        te = rng.choice(["chunked;", "gzip;;q=1", "trailers, chunked;a", "identity;;", ";", "chunked; ;q=0.5", "chunked;q", "chunked;Q=1", ";q=1", "a;b;c;;d"])
        s = ("GET /%s HTTP/1.1\r\nTE: %s\r\n\r\n" % (tag, te)).encode() + follower
    elif kind == "abs-targets":
        tg = rng.choice(["http://example.org:8001", "http://example.org", "https://", "http:/", "HTTP://h", "http://h/", "http://h?x", "//", "http://"])
        s = ("%s %s HTTP/1.1\r\nHost: h\r\n\r\n" % (rng.choice(["GET", "OPTIONS"]), tg)).encode() + follower
    elif kind == "te-nan":
        n = rng.choice([2, 5, 21, 44, 60])
        s = ("GET /%s HTTP/1.1\r\nTE: %s\r\n\r\n" % (tag, te_list(rng, n))).encode()
    elif kind == "truncated":
        base = (b"POST /t HTTP/1.1\r\nHost: h\r\nContent-Length: 10\r\n\r\n0123456789"
                b"POST /u HTTP/1.1\r\nTransfer-Encoding: chunked\r\n\r\n5;x\r\nhello\r\n0\r\n\r\n")
        s = base[:rng.below(len(base) + 1)]
    elif kind == "many-505":
        n = rng.choice([50, 1000])
        s = (b"GET / HTTP/%s\r\n\r\n" % rng.choice([b"2.0", b"3.0"])) * n + b"GET /after HTTP/1.1\r\nHost: h\r\n\r\n"
    elif kind == "many-requests":
        n = rng.choice([200, 1000])
        s = b"GET /p HTTP/1.1\r\nHost: h\r\n\r\n" * n
    elif kind == "random":
        s = bytes([rng.choice([13, 10, 32, 58, 71, 69, 84, 47, 72, 80, 49, 46, rng.below(256)]) for _ in range(rng.choice([3, 30, 300]))])
    else:
        raise ValueError(kind)
    act, t = handler(rng)
    if kind in RARE:
        # small answers: what is measured is what the CLIENT's bytes make the server allocate
        act, t = action_str([], respond_str(200, b"ok", True)), {"reads": 0, "finish": "R"}
    t["kind"] = kind
    return cv_line(s, [act], extra="c14=1"), t


KINDS = ["huge-cl", "huge-cl", "huge-chunk", "many-headers", "long-line", "control", "te-nan", "te-nan", "truncated", "random",
         "head-identity", "empty-values", "short-lines", "te-params", "abs-targets"]
RARE = ["many-505", "many-requests"]     # long pipelines: a few per run (the model's wire append is quadratic)


def gen(tier, rng):
    # the D6 and D7 witnesses first
    yield (cv_line(b"POST /a HTTP/1.1\r\nContent-Length: 1099511627776\r\n\r\nhello", [action_str([], respond_str(200, b"ok", True))], extra="c14=1"),
           {"kind": "huge-cl"})
    n = 2000 if tier == "quick" else 40000
    for i in range(n):
        yield build(rng, KINDS[i % len(KINDS)], i)
    for i in range(8 if tier == "quick" else 80):
        yield build(rng, RARE[i % 2], n + i)
    # the client goes away WITHOUT reading what the server has sent (the kernel then resets the connection): the server's
    # next read of the streamed body fails with an error, not with end-of-stream; implementation and oracle only
    for i in range(12 if tier == "quick" else 120):
        cl = rng.choice([1025, 100000])
        expect = rng.chance(1, 3)
        head = ("POST /gone%d HTTP/1.1\r\nHost: h\r\n%sContent-Length: %d\r\n\r\n" % (i, "Expect: 100-continue\r\n" if expect else "", cl)).encode()
        pre = b"" if rng.chance(1, 2) else ("GET /gp%d HTTP/1.1\r\nHost: h\r\n\r\n" % i).encode()
        acts = [action_str([], respond_str(200, b"ok", True))] if pre else []
        acts.append(action_str(rng.choice([[], [(None, 4096)], [(5, 5)]]), rng.choice([respond_str(200, b"ok", True), "D", respond_str(413, b"no", True)])))
        acts.append(action_str([], respond_str(200, b"never", True)))
        yield (cv_line(pre + head + b"0123456789", acts, transport="t", extra="c14=1 nomodel=1 fin=unread"), {"kind": "reset-inside-streamed-body"})
    # HTTP/0.9 on the request line is accepted by the parser and reaches the application: every way of answering it
    for i, (extra_h, body, act) in enumerate([
            ("", b"", action_str([], respond_str(200, b"ok", True))), ("", b"", action_str([], "D")),
            ("Bad Header\r\n", b"", action_str([], respond_str(200, b"ok", True))),
            ("Expect: 100-continue\r\nContent-Length: 3\r\n", b"abc", action_str([(None, 64)], respond_str(200, b"ok", True))),
            ("Content-Length: 3\r\n", b"abc", action_str([(None, 64)], "W" + hx(b"HTTP/1.1 299 Raw\r\nContent-Length: 0\r\n\r\n"))),
            ("TE: chunked\r\n", b"", action_str([], respond_str(200, b"chunked?", False)))]):
        s = ("GET /v09-%d HTTP/0.9\r\nHost: h\r\n%s\r\n" % (i, extra_h)).encode() + body + b"GET /after HTTP/1.1\r\nHost: h\r\n\r\n"
        yield cv_line(s, [act, action_str([], respond_str(200, b"after", True))], extra="c14=1"), {"kind": "http-0.9"}
    # very long pipelines (a megabyte of tiny requests): implementation and oracle only
    # (the HTTP/1.1 pipeline is answered request by request by the harness: 15000 of them take about 3 s on an idle
    # machine; the time limit leaves room for a machine that is ten times slower)
    for ver, count in ((b"2.0", 60000), (b"3.0", 60000), (b"1.1", 15000)):
        s = (b"GET / HTTP/" + ver + b"\r\n\r\n") * count + b"GET /after HTTP/1.1\r\nHost: h\r\n\r\n"
        yield (cv_line(s, [action_str([], respond_str(200, b"ok", True))], extra="c14=1 nomodel=1 limit=32000"),
               {"kind": "pipeline-%d-%s" % (count, ver.decode())})


def project(obs):
    # allocation sizes and panic counts are judged by the oracle, not compared
    return re.sub(r" maxalloc=.*$", "", obs)


def oracle(case, obs):
    if obs.startswith("EXECUTOR-DIED") or obs.startswith("ABORT"):
        return "FAIL the process died (abort) while serving this client input"
    if "PANIC-IN-HANDLER" in obs:
        return "FAIL a library call made by the application thread panicked"
    m = re.search(r" maxalloc=(\d+) panics=(\d+)(?: panic=(\S+))?", obs)
    if not m:
        return "FAIL no allocation/panic observation: " + obs[:100]
    if int(m.group(2)) > 0:
        return "FAIL %s panic(s) inside the library: %s" % (m.group(2), (m.group(3) or "")[:200])
    bound = 2 * 1024 * 1024 + 16 * len(case)
    if int(m.group(1)) > bound:
        return "FAIL a single allocation of %s bytes was requested; bound for this input is %d" % (m.group(1), bound)
    if " end=hang" in obs:
        return "FAIL the connection hangs"
    return "OK"


def nontrivial(case, mo):
    return True
