# C01 — pipelined responses leave in request order and are never interleaved.
from cvbase import *
from plbase import *
import plbase

ID = "C01"
PROPS = ["C01", "C01Compose"]
EXEC = "pl"
RULE = ("n in 2..6 pipelined requests on one connection, each answered by its own thread; the threads are released in a random "
        "permutation (quick) / every permutation for n <= 4 (thorough) with grace periods of 0.3 / 3 / 20 ms; finishers: respond "
        "(identity with 0..5000 bytes on both sides of the 1 KiB write buffer, chunked up to 40000 bytes), drop, panicking handler, "
        "raw writer with one flushed write or three unflushed writes; every answer carries the id of its request; the oracle "
        "splits the client's byte stream with an independent response parser and demands the answers of requests 0,1,2,... in "
        "that order, each complete and alone; the model's (sequential) wire must be byte-identical whatever the order; "
        "non-trivial = release order differs from request order")
ASSUMPTIONS = ["TCP / Unix sockets deliver bytes in order", "the grace period only buys detection power: on code that waits "
               "correctly the outcome does not depend on it"]


def gen(tier, rng):
    return plbase.gen_cases(tier, rng)


def nontrivial(case, mo):
    import re
    o = re.search(r"order=(\S+)", case).group(1).split(",")
    return o != sorted(o, key=int)
