# C01 — pipelined responses leave in request order and are never interleaved.
from cvbase import *
from plbase import *
import plbase
import swbase
from swbase import AFTER_PREFIXES, model_line_after, agree_after

ID = "C01"
PROPS = ["C01", "C01Compose", "C01Lockstep"]
EXEC = ("pl", "sws")
RULE = ("n in 2..6 pipelined requests on one connection, each answered by its own thread; the threads are released in a random "
        "permutation (quick) / every permutation for n <= 4 (thorough) with grace periods of 0.3 / 3 / 20 ms; finishers: respond "
        "(identity with 0..5000 bytes on both sides of the 1 KiB write buffer, chunked up to 40000 bytes), drop, panicking handler, "
        "raw writer with one flushed write or three unflushed writes; every answer carries the id of its request; the oracle "
        "splits the client's byte stream with an independent response parser and demands the answers of requests 0,1,2,... in "
        "that order, each complete and alone; the model's (sequential) wire must be byte-identical whatever the order; "
        "non-trivial = release order differs from request order. SCHEDULED RUNS of the real writer chain (`sws`): the "
        "SequentialWriterBuilder/SequentialWriter code of src/util/sequential.rs runs under the controllable runtime (hook H2: "
        "its mpsc channels and the shared writer's mutex are facade types, every send/receive/lock is a scheduling point of a "
        "seeded schedule): 2..7 writers over 1..4 threads plus the connection thread, each writer with 0..3 writes, flushes, "
        "drop; scripts that can always progress and scripts that may block; the recorded labels (New / Write / Flush / DropW) "
        "are replayed in LOCK-STEP through the extracted step function of Conc/SeqWriter.v: every label must be enabled, the "
        "sink must hold the model's stream, and every operation the code is blocked in must be disabled in the model too")
ASSUMPTIONS = ["TCP / Unix sockets deliver bytes in order", "the grace period only buys detection power: on code that waits "
               "correctly the outcome does not depend on it"]


def gen(tier, rng):
    for x in plbase.gen_cases(tier, rng):
        yield x
    for x in swbase.gen_sws(tier, rng):
        yield x


_pl_oracle = oracle


def oracle(case, obs):
    if case.startswith("sws "):
        return swbase.oracle(case, obs)
    return _pl_oracle(case, obs)


def nontrivial(case, mo):
    import re
    if case.startswith("sws "):
        return swbase.nontrivial(case, mo)
    o = re.search(r"order=(\S+)", case).group(1).split(",")
    return o != sorted(o, key=int)
