# C08 — connections are isolated: none waits for another, however many arrive at once.
import re
from tpbase import *
import tpbase

ID = "C08"
PROPS = "C08"
RULE = ("the real TaskPool (cfg window) with tasks that start and then do not finish until released (connections that stay open): "
        "bursts of 1..8 dispatches after the workers went idle, explored against ALL interleavings of the extracted pool model "
        "(the implementation's counters and started-task count must be one of the model's outcomes); bursts of 16, 64, 200 and "
        "two-phase scripts judged by the oracle (every dispatched task has started while none has finished; no task runs twice; "
        "thread counter = live threads); and the full server: N in {1,4,5,16,64,300 (thorough: 400 TCP, 1200)} keep-alive connections opened at once over Unix (also behind connections that were accepted earlier and have not sent a byte, and next to connections whose clients do not read a 64 MiB answer) "
        "and TCP, each must be answered while all stay open; non-trivial = burst > number of idle workers or N > 4")
ASSUMPTIONS = ["an awake thread is eventually scheduled (observation waits until nothing changes for 100 ms)",
               "the process's file-descriptor limit (raised to the hard limit by the harness) exceeds twice the number of connections plus the baseline"]


def gen(tier, rng):
    reps = 3 if tier == "quick" else 12
    for _ in range(reps):
        for k in (1, 3, 4, 5, 6, 8):
            yield "tp z%d,d%d,o" % (rng.choice([15, 30]), k), {"burst": k, "phase": 1}
        for k in (16, 64, 200):
            yield "tp z20,d%d,o" % k, {"burst": k, "phase": 1}
        yield "tp z20,d5,o,rel,o,d6,o", {"burst": 6, "phase": 3}
        yield "tp d3,o,z10,d3,o", {"burst": 3, "phase": 2}
        yield "tp z20,d2,o,d4,o,rel,o,d9,o", {"burst": 9, "phase": 4}
    # a burst, everything finishes, the surplus workers retire after the 5 s idle period, then new
    # connections arrive while the remaining workers are busy: they must start at once
    yield "tp z20,d8,o,rel,idle6200,o,d4,o,d3,o", {"burst": 8, "phase": "after-idle-retirement"}
    if tier != "quick":
        yield "tp z20,d30,o,rel,idle6200,o,d6,o", {"burst": 30, "phase": "after-idle-retirement"}
    # the real pool under the controllable runtime (hook H2): seeded schedules, virtual time; every trace is
    # replayed in lock-step through the model
    ns = 40 if tier == "quick" else 600
    for sc in ("q,d5,o", "q,d8,o", "d3,o,d3,o", "q,d5,o,rel,o,d6,o", "d6,o", "q,d4,o,d1,o", "q,d16,o"):
        for sd in range(ns):
            yield "tps %d %s" % (sd * 13 + len(sc), sc), {"scheduled": sc}
    for _ in range(2 if tier == "quick" else 8):
        for n in (1, 4, 5, 16, 64):
            yield "bs u %d %d" % (n, rng.choice([1, 3])), {"server_burst": n}
        for n in (5, 16):
            yield "bs t %d 2" % n, {"server_burst": n}
    # connections that are open but have not sent a byte yet (before the others in accept order)
    for n, k in ((3, 1), (6, 2), (5, 6)):
        yield "bs u %d 2 silent=%d" % (n, k), {"server_burst": n, "silent": k}
    yield "bs t 4 2 silent=1", {"server_burst": 4, "silent": 1}
    # HTTP/1.0 clients answered with responses of undeclared length (the library gathers such a body first), while other
    # such connections are stalled: their 64 MiB answers are never read by their clients
    yield "bs u 5 2 v10=1", {"server_burst": 5, "variant": "http10-undeclared"}
    yield "bs u 4 2 v10=1 stall=1", {"server_burst": 4, "variant": "stalled-writer"}
    yield "bs t 3 2 v10=1 stall=2", {"server_burst": 3, "variant": "stalled-writer"}
    # far above any plausible built-in limit
    yield "bs u 300 3", {"server_burst": 300}
    if tier != "quick":
        yield "bs u 1200 3", {"server_burst": 1200}
        yield "bs t 400 3", {"server_burst": 400}


def oracle_tps(case, obs):
    o = tpbase.tps_obs(obs)
    if o is None:
        return "FAIL implementation: " + obs[:200]
    if len(set(o["started"])) != len(o["started"]):
        return "FAIL a task was run twice"
    # replay the script: at every observation before the first release, every dispatched task must have started
    dispatched = 0
    released = False
    k = 0
    for op in case.split(" ")[2].split(","):
        if op.startswith("d") and op != "drop":
            dispatched += int(op[1:])
        elif op == "rel":
            released = True
        elif op == "o" and k < len(o["obs"]):
            todo, waiting, active = o["obs"][k]
            k += 1
            if todo != 0:
                return "FAIL %d task(s) still queued at quiescence although no running task has to finish for them (%d dispatched)" % (todo, dispatched)
    if len(o["started"]) != dispatched:
        return "FAIL %d tasks dispatched, %d started" % (dispatched, len(o["started"]))
    return "OK"


def oracle(case, obs):
    if case.startswith("tps "):
        return oracle_tps(case, obs)
    f = case.split(" ")
    if f[0] == "bs":
        m = re.match(r"answered=(\d+) of=(\d+) wrong=(\d+) delivered=(\d+)", obs)
        if not m:
            return "FAIL implementation: " + obs[:200]
        a, n, w, d = (int(x) for x in m.groups())
        if a != n or w:
            return "FAIL %d of %d simultaneously opened keep-alive connections got their answer while the others stayed open (%d delivered, %d wrong)" % (a, n, d, w)
        return "OK"
    ol = obs_list(obs)
    if not ol:
        return "FAIL implementation: " + obs[:200]
    dispatched = 0
    idx = 0
    for op in f[1].split(","):
        if op.startswith("d"):
            dispatched += int(op[1:])
        if op == "o":
            s, t, w, a, th, dup = ol[idx]
            idx += 1
            if int(s) != dispatched or int(t) != 0:
                return "FAIL %d tasks dispatched, only %s started, %s still queued although no running task has to finish for them" % (dispatched, s, t)
            if dup == "1":
                return "FAIL a task was run twice"
            if th is not None and int(th) != int(a):
                return "FAIL thread counter %s but %s pool threads alive" % (a, th)
    return "OK"


def project(o):
    return strip_impl(o)


def nontrivial(case, mo):
    if case.startswith("tps "):
        return True
    m = re.search(r"d(\d+)", case)
    return (m and int(m.group(1)) > 4) or case.startswith("bs") and int(case.split(" ")[2]) > 4
