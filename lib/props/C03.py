# C03 — request body is delimited exactly by the message framing.
from common import hx
from convgen import *
from cvbase import *

ID = "C03"
PROPS = "C03"
RULE = ("body-bearing requests of every framing kind (Content-Length, chunked in four size-line styles with random chunkings, "
        "any method incl. CONNECT/OPTIONS/TRACE; both headers, upgrade with the option in every spelling/position of the Connection list, none; HTTP/1.1 and HTTP/1.0 keep-alive) with sizes on both sides of 1024 / 8192 and up to 70000, read with scripted buffer-size "
        "sequences (1, 2, 7, 1023, 1024, 1025, 4096, 8192, 65536; partial reads; reads beyond the end), followed by a tagged "
        "pipelined request; the oracle demands exactly the designated bytes, end-of-stream exactly at the boundary (never a byte "
        "of the follower), the declared length, and the follower delivered intact; non-trivial = non-empty body; distinct = lines")
ASSUMPTIONS = ["a Transfer-Encoding header, when present, has the value chunked (any letter case): the code applies the chunk decoder "
               "to any TE value, which the property does not designate either way",
               "chunked bodies end without a trailer section (trailers: known finding D10, exercised by the C09 check)"]

SIZES3 = [0, 1, 2, 5, 100, 1023, 1024, 1025, 2048, 5000, 8191, 8192, 8193, 20000, 70000]
BUFS = [1, 2, 7, 1023, 1024, 1025, 4096, 8192, 65536]


def expected_read(body, reads):
    """What a handler performing `reads` obtains from a reader that yields exactly `body`, and how
    its last loop ends (count = got what it asked for without seeing the end; eof)."""
    pos = 0
    end = "count"
    for m, n in reads:
        if m is None:
            pos = len(body)
            return body[:pos], "eof"
        take = min(m, len(body) - pos)
        pos += take
        if take < m:
            return body[:pos], "eof"
        end = "count"
    return body[:pos], end


def rand_reads(rng, size):
    k = rng.below(8)
    if k == 7:
        # vectored reads: several slices that each fit in what is left but together exceed it
        # (most of the body with plain reads, then slices such that each is <= what is left, their sum is not)
        if size > 70:
            tail = rng.choice([64, 5, 33])
            sl = tail * 3 // 4 if tail > 4 else 3
            return [(size - tail, 4096), (None, "%d*2" % max(1, sl))]
        n = max(1, size // 3 + 1)
        return [(None, "%d*3" % n)]
    if k == 0:
        return [(None, rng.choice(BUFS))]
    if k == 1:
        return [(None, 1 if size <= 3000 else 7)]
    if k == 2:
        return [(size, rng.choice(BUFS))]                       # exactly the body, end not observed
    if k == 3:
        return [(size + rng.choice([1, 100]), rng.choice(BUFS))]  # beyond the end
    if k == 4:
        return [(max(1, size // 3), rng.choice(BUFS)), (None, rng.choice(BUFS))]
    if k == 5:
        return [(rng.choice([1, 2, 5]), 1), (rng.choice([1, 1023, 1024]), rng.choice(BUFS)), (None, rng.choice(BUFS))]
    return [(max(1, size - 1), rng.choice(BUFS))]


def build(rng, i, transport="u"):
    fr = rng.choice(["cl", "cl", "cl", "chunked", "chunked", "both", "none"])
    size = rng.choice(SIZES3) if fr != "none" else 0
    tag = "b%d" % i
    body = body_bytes(tag, size)
    # (the framing rules do not depend on the method)
    r = AReq(method=rng.choice(["POST", "PUT", "POST", "PUT", "CONNECT", "OPTIONS", "DELETE", "GET", "PATCH", "TRACE", "BREW"]),
             target="/" + tag, version="1.1", headers=[("Host", "h")], framing=fr,
             body=body, chunks=random_chunks(rng, size) if fr in ("chunked", "both") else None, chunk_style=rng.below(4))
    if rng.chance(1, 6):
        # the framing rules do not depend on the request's HTTP version: HTTP/1.0 with keep-alive, any framing
        r.version, r.conn = "1.0", rng.choice(["keep-alive", "Keep-Alive"])
    if fr == "both":
        r.te_first = rng.chance(1, 2)          # either order of the two framing headers
    if fr in ("both", "chunked"):
        r.te_value = rng.choice(["chunked", "chunked", "Chunked", "CHUNKED"])
    if fr == "chunked" and rng.chance(1, 4):
        r.headers.append(("Content-Length", str(rng.choice([0, 3, size + 5]))))   # TE wins over any Content-Length
    if fr == "none" and rng.chance(1, 3):
        # names that merely LOOK like framing headers do not frame anything
        r.headers.append(rng.choice([("Content_Length", "5"), ("content_length", "3"), ("Transfer_Encoding", "chunked"), ("Content-Lengths", "4"),
                                     ("X-Content-Length", "9"), ("Content.Length", "2")]))
    if rng.chance(1, 8):
        # media types do not frame a request: without Content-Length / Transfer-Encoding there is no body, whatever the type
        r.headers.append(("Content-Type", rng.choice(["multipart/byteranges; boundary=X", "Multipart/ByteRanges", "multipart/form-data; boundary=b",
                                                     "application/octet-stream", "message/http"])))
    if rng.chance(1, 12):
        # the framing headers come after more than a hundred other header fields
        r.headers = r.headers + [("X-Pad-%d" % k, "v") for k in range(rng.choice([100, 101, 130, 400]))]
    reads = rand_reads(rng, size)
    got, end = expected_read(body, reads)
    if fr == "cl" and size == 0:
        got, end = b"", ("eof" if any(True for _ in reads) else "count")
    # reading nothing at all from an empty body: the loop asks for m > 0 bytes and sees the end
    if size == 0:
        got, end = b"", "eof"
        if reads and reads[0][0] == 0:
            end = "count"
    stream = r.render()
    acts = [action_str(reads, respond_str(200, b"ok", True))]
    bl = str(size) if (fr == "cl" or (fr == "none" and False)) else "N"
    if fr == "chunked" and any(n == "Content-Length" for n, _ in r.headers):
        bl = "N"
    wu = [hx(r.target)]
    wb = [hx(got)]
    wre = [end]
    wl = [bl]
    t = "f%d" % i
    f = AReq(method="GET", target="/" + t, version="1.1", headers=[("Host", "h"), ("X-Tag", t)])
    stream += f.render()
    acts.append(action_str([(None, 64)], respond_str(200, b"f", True)))
    wu.append(hx(f.target))
    wb.append("-")
    wre.append("eof")
    wl.append("N")
    extra = "wu=%s wb=%s wre=%s wl=%s ws=200,200 we=closed fr=%s" % (j(wu), j(wb), j(wre), j(wl), fr)
    return cv_line(stream, acts, transport=transport, extra=extra), {"framing": fr, "size": size, "reads": len(reads),
                                                                      "buf": str(reads[0][1]), "end": end, "version": r.version}


def build_upgrade(rng, i):
    tag = "up%d" % i
    rest = body_bytes(tag, rng.choice([0, 5, 3000])) + b"GET /not-a-request HTTP/1.1\r\n\r\n"
    r = AReq(method="GET", target="/" + tag, version="1.1", headers=[("Host", "h"), ("Upgrade", "x")], framing="upgrade", body=rest)
    # the upgrade option in every spelling and position of the Connection list
    r.conn = rng.choice(["Upgrade", "upgrade", "UPGRADE", "keep-alive, Upgrade", "Upgrade, keep-alive", "keep-alive,upgrade",
                         "keep-alive ,  Upgrade", "x, Upgrade ,y"])
    # an upgrade request keeps ALL remaining bytes verbatim, whatever framing headers it also carries
    k = rng.below(4)
    wl = "N"
    if k == 1:
        cl = rng.choice([0, 3, 5000])
        r.headers.append(("Content-Length", str(cl)))
        wl = str(cl)               # the declared length is reported when there is one
    elif k == 2:
        r.headers.append(("Transfer-Encoding", "chunked"))
    reads = [(None, rng.choice(BUFS))]
    extra = "wu=%s wb=%s wre=eof wl=%s we=closed fr=upgrade" % (hx(r.target), hx(rest), wl)
    return cv_line(r.render(), [action_str(reads, respond_str(200, b"ok", True))], extra=extra), {"framing": "upgrade", "size": len(rest)}


def gen(tier, rng):
    n = 1500 if tier == "quick" else 25000
    for i in range(n):
        yield build(rng, i)
    for i in range(n, n + 60):
        yield build_upgrade(rng, i)
    for i in range(n + 40, n + 70):
        yield build(rng, i, transport="t")


def nontrivial(case, mo):
    return " wb=-," not in case
