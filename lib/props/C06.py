# C06 — exactly one final response per delivered request; a dropped request gets a 500.
from cvbase import *
from plbase import *
import plbase
import swbase
from swbase import AFTER_PREFIXES, model_line_after, agree_after

ID = "C06"
PROPS = ["C06", "C06Chain", "C01Lockstep", "C06Check"]
EXEC = ("pl", "cv", "sws")
RULE = ("pipelines of 2..6 requests (GET/POST/HEAD, bodies read or not) answered by separate threads in permuted order with every "
        "way of finishing: respond, drop unanswered, panicking handler (unwinding drops the request), raw writer (flushed / "
        "unflushed), and sequential conversations with upgrade; the oracle counts the final responses in the client's stream "
        "against the delivered requests: one each, in order, status 500 exactly for dropped/panicked ones (no body for HEAD), the "
        "raw bytes for the raw writer; a dropped request must not hold up the ones behind it (the run ends, nothing hangs). "
        "SCHEDULED RUNS of the real writer chain (`sws`, hook H2): scripts over 2..7 writers and 1..4 threads in which writers "
        "are dropped untouched, after a flush only, or after writes; a script in which every thread finishes its writers in "
        "index order must run to completion under EVERY explored schedule (nothing left blocked), each writer releases its "
        "successor exactly once, and the labels are replayed in lock-step through Conc/SeqWriter.v")
ASSUMPTIONS = ["unwinding runs destructors (Rust's guarantee): a panicking handler drops the request"]


def gen(tier, rng):
    for x in plbase.gen_cases(tier, rng, kinds=["drop", "panic", "respond", "raw", "drop", "rawx", "chunked", "rawempty", "rawflush", "rawpanic", "resperr", "resperr"]):
        yield x
    # upgrade: the 101 answer, then the raw stream
    from convgen import AReq, cv_line, action_str
    from common import hx
    for i in range(20 if tier == "quick" else 200):
        r = AReq(method="GET", target="/up%d" % i, version="1.1", headers=[("Host", "h"), ("Upgrade", "x")], framing="upgrade", body=b"")
        pre = AReq(method="GET", target="/pre%d" % i, version="1.1", headers=[("Host", "h")])
        stream = pre.render() + r.render()
        acts = [action_str([], rng.choice(["D", "P", "R200:6f6b:1"])), action_str([], "U" + hx(b"x"))]
        st0 = "500" if acts[0].endswith("D") or acts[0].endswith("P") else "200"
        extra = "wu=%s,%s ws=%s,101 we=closed" % (hx(pre.target), hx(r.target), st0)
        yield cv_line(stream, acts, extra=extra), {"n": 2, "order": "upgrade"}
    for x in gen_withheld(tier, rng):
        yield x
    for x in gen_pending_head(tier, rng):
        yield x
    for x in gen_methods(tier, rng):
        yield x
    for x in swbase.gen_sws(tier, rng):
        yield x


_cv_oracle = oracle


def oracle(case, obs):
    if case.startswith("sws "):
        return swbase.oracle(case, obs)
    return _cv_oracle(case, obs)


def gen_withheld(tier, rng):
    """the client announces a body and withholds it (it waits for the server's verdict); the application gives the
    request up without asking for the body: the final response must still reach the client"""
    from convgen import cv_line, action_str
    from common import hx
    for i in range(12 if tier == "quick" else 120):
        expect = rng.chance(2, 3)
        cl = rng.choice([5, 1024, 1025, 70000]) if expect else rng.choice([1025, 70000])
        head = ("POST /w%d HTTP/1.1\r\nHost: h\r\n%sContent-Length: %d\r\n\r\n" % (i, "Expect: 100-continue\r\n" if expect else "", cl)).encode()
        fin, st = rng.choice([("D", "500"), ("P", "500"), ("R403:6e6f:1", "403")])
        extra = "wu=%s ws=%s we=open limit=1500" % (hx("/w%d" % i), st)
        yield cv_line(head, [action_str([], fin)], eof=False, extra=extra), {"n": 1, "order": "withheld-body"}


def gen_methods(tier, rng):
    """every method (CONNECT, OPTIONS, TRACE, extension tokens ...) answered with success and refusal statuses, with
    declared and undeclared lengths: exactly the body given to respond must reach the client (only HEAD has none)"""
    from convgen import AReq, cv_line, action_str, respond_str, body_bytes
    from common import hx
    for i in range(30 if tier == "quick" else 400):
        stream = b""
        acts, wu, ws, wrb, hd = [], [], [], [], []
        for k in range(1 + rng.below(3)):
            m = rng.choice(["CONNECT", "CONNECT", "OPTIONS", "TRACE", "DELETE", "PATCH", "BREW", "HEAD", "GET"])
            t = "/m%d.%d" % (i, k)
            r = AReq(method=m, target=t, version=rng.choice(["1.1", "1.1", "1.0"]), headers=[("Host", "h")])
            if r.version == "1.0":
                r.conn = "keep-alive"
            if rng.chance(1, 4):
                r.headers.append(("TE", rng.choice(["chunked", "identity"])))
            stream += r.render()
            st = rng.choice([200, 204, 205, 205, 403, 404, 407, 500, 502, 299])
            body = body_bytes("b%d.%d" % (i, k), rng.choice([0, 7, 1500]))
            acts.append(action_str([], respond_str(st, body, rng.chance(1, 2))))
            wu.append(hx(t))
            ws.append(str(st))
            nobody = (m == "HEAD") or st == 204
            hd.append("1" if m == "HEAD" else "0")
            wrb.append("-" if nobody else hx(body))
        extra = "wu=%s ws=%s wrb=%s hd=%s we=closed" % (j(wu), j(ws), j(wrb), j(hd))
        yield cv_line(stream, acts, extra=extra), {"n": len(acts), "order": "methods"}


def gen_pending_head(tier, rng):
    """answered requests followed by the head of a request whose small body (Content-Length <= 1024, no Expect) has not
    arrived yet: the library waits for that body before delivering the request, and meanwhile the answers to the earlier
    requests must have reached the client (they must not wait for a later response to flush them out)"""
    from convgen import cv_line, action_str, respond_str, body_bytes
    from common import hx
    for i in range(16 if tier == "quick" else 160):
        stream = b""
        acts, wu, ws = [], [], []
        for k in range(1 + rng.below(3)):
            stream += ("GET /ph%d.%d HTTP/1.1\r\nHost: h\r\n\r\n" % (i, k)).encode()
            fin, st = rng.choice([("R200:6f6b:1", "200"), ("D", "500"), ("W" + hx(b"HTTP/1.1 299 Raw\r\nContent-Length: 0\r\n\r\n"), "299"),
                                  # an undeclared length (chunked): the END of the message must reach the client too
                                  ("R200:6f6b:0", "200"), (respond_str(200, body_bytes("u%d" % k, 3000), False), "200")])
            acts.append(action_str([], fin))
            wu.append(hx("/ph%d.%d" % (i, k)))
            ws.append(st)
        cl = rng.choice([1, 5, 1024])
        stream += ("POST /pending%d HTTP/1.1\r\nHost: h\r\nContent-Length: %d\r\n\r\n" % (i, cl)).encode() + b"x" * rng.choice([0, 0, cl - 1])
        extra = "wu=%s ws=%s we=open limit=1500" % (j(wu), j(ws))
        yield cv_line(stream, acts, eof=False, extra=extra), {"n": len(acts), "order": "pending-head-behind"}


def nontrivial(case, mo):
    if case.startswith("sws "):
        return swbase.nontrivial(case, mo)
    return "/D" in case or "/P" in case or "/W" in case or "/X" in case
