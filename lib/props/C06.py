# C06 — exactly one final response per delivered request; a dropped request gets a 500.
from cvbase import *
from plbase import *
import plbase
import swbase
from swbase import AFTER_PREFIXES, model_line_after, agree_after

ID = "C06"
PROPS = ["C06", "C06Chain", "C01Lockstep", "C06Check"]
EXEC = ("pl", "cv", "sws")
RULE = ("pipelines of 2..6 requests (GET/POST/HEAD, bodies read or not) answered by separate threads in permuted order with every "
        "way of finishing: respond, drop unanswered, panicking handler (unwinding drops the request), raw writer (flushed / "
        "unflushed), and sequential conversations with upgrade; the oracle counts the final responses in the client's stream "
        "against the delivered requests: one each, in order, status 500 exactly for dropped/panicked ones (no body for HEAD), the "
        "raw bytes for the raw writer; a dropped request must not hold up the ones behind it (the run ends, nothing hangs). "
        "SCHEDULED RUNS of the real writer chain (`sws`, hook H2): scripts over 2..7 writers and 1..4 threads in which writers "
        "are dropped untouched, after a flush only, or after writes; a script in which every thread finishes its writers in "
        "index order must run to completion under EVERY explored schedule (nothing left blocked), each writer releases its "
        "successor exactly once, and the labels are replayed in lock-step through Conc/SeqWriter.v")
ASSUMPTIONS = ["unwinding runs destructors (Rust's guarantee): a panicking handler drops the request"]


def gen(tier, rng):
    for x in plbase.gen_cases(tier, rng, kinds=["drop", "panic", "respond", "raw", "drop", "rawx", "chunked", "rawempty", "rawflush", "rawpanic"]):
        yield x
    # upgrade: the 101 answer, then the raw stream
    from convgen import AReq, cv_line, action_str
    from common import hx
    for i in range(20 if tier == "quick" else 200):
        r = AReq(method="GET", target="/up%d" % i, version="1.1", headers=[("Host", "h"), ("Upgrade", "x")], framing="upgrade", body=b"")
        pre = AReq(method="GET", target="/pre%d" % i, version="1.1", headers=[("Host", "h")])
        stream = pre.render() + r.render()
        acts = [action_str([], rng.choice(["D", "P", "R200:6f6b:1"])), action_str([], "U" + hx(b"x"))]
        st0 = "500" if acts[0].endswith("D") or acts[0].endswith("P") else "200"
        extra = "wu=%s,%s ws=%s,101 we=closed" % (hx(pre.target), hx(r.target), st0)
        yield cv_line(stream, acts, extra=extra), {"n": 2, "order": "upgrade"}
    for x in gen_withheld(tier, rng):
        yield x
    for x in swbase.gen_sws(tier, rng):
        yield x


_cv_oracle = oracle


def oracle(case, obs):
    if case.startswith("sws "):
        return swbase.oracle(case, obs)
    return _cv_oracle(case, obs)


def gen_withheld(tier, rng):
    """the client announces a body and withholds it (it waits for the server's verdict); the application gives the
    request up without asking for the body: the final response must still reach the client"""
    from convgen import cv_line, action_str
    from common import hx
    for i in range(12 if tier == "quick" else 120):
        expect = rng.chance(2, 3)
        cl = rng.choice([5, 1024, 1025, 70000]) if expect else rng.choice([1025, 70000])
        head = ("POST /w%d HTTP/1.1\r\nHost: h\r\n%sContent-Length: %d\r\n\r\n" % (i, "Expect: 100-continue\r\n" if expect else "", cl)).encode()
        fin, st = rng.choice([("D", "500"), ("P", "500"), ("R403:6e6f:1", "403")])
        extra = "wu=%s ws=%s we=open limit=1500" % (hx("/w%d" % i), st)
        yield cv_line(head, [action_str([], fin)], eof=False, extra=extra), {"n": 1, "order": "withheld-body"}


def nontrivial(case, mo):
    if case.startswith("sws "):
        return swbase.nontrivial(case, mo)
    return "/D" in case or "/P" in case or "/W" in case or "/X" in case
