# C05 — chunked/identity selection is a fixed function of version, status, TE and length.
from common import hx, hdrs
from convgen import AReq, body_bytes, action_str, respond_str, cv_line
from cvbase import j

ID = "C05"
PROPS = "C05"
EXEC = ("rp", "cv")
NO_SPEC_PREFIXES = ("cv ",)
EXHAUSTIVE = True
RULE = ("exhaustive product: version {0.9,1.0,1.1,2.0} x status {100,101,199,200,204,205,304,404,500,999} x "
        "(length,threshold) pairs around the threshold comparison x TE headers (absent, every coding name x q form, "
        "two-entry lists with every q ordering) ; plus HEAD/upgrade/default-threshold variants on a TE subset; "
        "non-trivial = version > 1.0 and status >= 200 and != 204 (the decision reaches the TE/length logic); "
        "distinct = distinct case lines")
ASSUMPTIONS = [
    "q values are compared on the declared sub-domain of f32::from_str ([+-]?d{1,3}(.d{0,3})? | .d{1,3}); "
    "other q spellings are reported as outside the modelled domain and only checked for robustness",
    "slice::sort_by is a stable sort",
]

NAMES = ["chunked", "identity", "Chunked", "IDENTITY", "trailers", "gzip", "", " chunked ", "chunked2"]
QS = ["", ";q=1", ";q=0", ";q=0.5", ";q=0.501", ";q=0.499", "; q=0.9", ";q= 0.9 ", ";Q=0", ";q=abc", ";q=",
      ";q=-1", ";q=2", ";q=1.000", ";q=0.000", ";q=.5", ";q=1.", ";x=1;q=0", ";q=zz;q=0", ";q=0;q=1", ";q=1e0",
      ";q=0.0001", ";q=0,5", ";q=+0.3", ";q=-0", ";q=1.0.0", ";q=007", ";q=0.001", ";q=999.999", ";q=NaN", ";q=nan", ";q=-nan", ";q=+NAN"]
Q2 = ["", ";q=0", ";q=0.3", ";q=0.7", ";q=1", ";q=abc", ";q=0.70", ";q=NaN"]


def te_headers():
    tes = [None]
    for n in NAMES:
        for q in QS:
            tes.append(n + q)
    for a in ["chunked", "identity", "gzip"]:
        for b in ["chunked", "identity", "trailers"]:
            for qa in Q2:
                for qb in Q2:
                    tes.append("%s%s, %s%s" % (a, qa, b, qb))
                    tes.append("%s%s,%s%s ,x;q=0.9" % (a, qa, b, qb))
    # three-way ties and orderings
    for perm in (["identity;q=0.5", "chunked;q=0.5", "gzip;q=1"], ["gzip", "chunked;q=0.2", "identity;q=0.2"],
                 ["chunked;q=0.1", "identity;q=0.9", "chunked;q=0.9"], ["identity;q=0", "chunked;q=0"]):
        tes.append(", ".join(perm))
        tes.append(", ".join(reversed(perm)))
    return tes


SUBSET = [None, "chunked", "identity", "identity;q=0", "chunked;q=0", "gzip", "identity;q=0.5, chunked;q=0.5",
          "chunked;q=0.3, identity;q=0.7", "trailers", "chunked;q=abc", "chunked;", "identity;;q=1", "trailers, chunked;a"]


def line(ver, st, ln, thr, te, head=0, up="~", tename="TE", boxed=False):
    body = "@%d" % (3 if ln is None else ln)
    ops = "-" if thr is None else "T%d" % thr
    if boxed:                    # Response::boxed() after the threshold was chosen: the same response
        ops = "B" if thr is None else ops + ";B"
    rh = "-" if te is None else hdrs([(tename, te)])
    return "rp new %d - %s %s %s %s %s %d %s -" % (st, body, "-" if ln is None else str(ln), ops, ver, rh, head, up)


def gen(tier, rng):
    tes = te_headers()
    vers = ["0.9", "1.0", "1.1", "2.0"]
    sts = [100, 101, 199, 200, 204, 205, 304, 404, 500, 999]
    MAXU = 2 ** 64 - 1
    pairs = [(None, 5), (0, 0), (0, 1), (4, 5), (5, 5), (6, 5), (7, 0), (None, MAXU), (9, MAXU), (None, None), (100, None)]
    for ver in vers:
        for st in sts:
            for ln, thr in pairs:
                for te in tes:
                    yield line(ver, st, ln, thr, te), {"version": ver, "status": st,
                                                       "te": "absent" if te is None else ("list" if "," in te else "single"),
                                                       "length": "unknown" if ln is None else "known"}
    # default threshold boundary, HEAD, upgrade, header-name case, second TE header: on a TE subset
    for ver in ["1.0", "1.1"]:
        for st in [101, 200, 204, 404]:
            for te in SUBSET:
                for ln, thr in [(32767, None), (32768, None), (32769, None), (32768, 32769), (40000, MAXU)]:
                    yield line(ver, st, ln, thr, te), {"variant": "default-threshold"}
                    yield line(ver, st, ln, thr, te, boxed=True), {"variant": "boxed"}
                for ln, thr in [(None, 5), (4, 5), (6, 5)]:
                    yield line(ver, st, ln, thr, te, head=1), {"variant": "head"}
                    yield line(ver, st, ln, thr, te, up=hx("websocket")), {"variant": "upgrade"}
                    yield line(ver, st, ln, thr, te, tename="te"), {"variant": "lowercase-name"}
                    yield line(ver, st, ln, thr, te, boxed=True), {"variant": "boxed"}
                    if te is not None:
                        rh = hdrs([("Te", te), ("TE", "identity;q=1, chunked;q=0")])
                        yield ("rp new %d - @%d %s T%d %s %s 0 ~ -" % (st, 3 if ln is None else ln, "-" if ln is None else ln, thr, ver, rh),
                               {"variant": "two-te-headers"})
    for c in server_cases():
        yield c


def server_cases():
    """The same decision seen through a real server and Request::respond: the coding does not depend on the
    request's method (a HEAD request gets the header block a GET would get) — default threshold 32768."""
    for meth in ("GET", "HEAD", "POST"):
        for ver in ("1.1", "1.0"):
            for ln in (0, 5, 32767, 32768, 70000):
                for declared in (True, False):
                    for te in (None, "chunked", "identity"):
                        hs = [("Host", "h")] + ([("TE", te)] if te else [])
                        r = AReq(method=meth, target="/s%s%d" % (meth, ln), version=ver, headers=hs)
                        body = body_bytes("s", ln)
                        extra = "wu=%s ws=200 hd=%s we=closed" % (hx(r.target), "1" if meth == "HEAD" else "0")
                        yield (cv_line(r.render(), [action_str([], respond_str(200, body, declared))], extra=extra),
                               {"variant": "server-" + meth})


def agree(im, mo):
    if im.startswith("rp") or " " not in im or not ("[m=" in im or "[m=" in mo):
        return project(im) == project(mo)
    return im == mo


def project(obs):
    return obs.split(" ")[0]


def nontrivial(case, model_obs):
    if case.startswith("cv "):
        return True
    f = case.split(" ")
    return f[7] not in ("0.9", "1.0") and int(f[2]) >= 200 and int(f[2]) != 204


def neighbours(case, rng):
    if case.startswith("cv "):
        return
    f = case.split(" ")
    for st in (199, 200, 204, 205):
        for ver in ("1.0", "1.1"):
            g = list(f)
            g[2] = str(st)
            g[7] = ver
            yield " ".join(g)
