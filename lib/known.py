# lib/known.py — class predicates of the known findings (known_findings.json, status "known").
# A violation is reported as KNOWN-FINDING only when the predicate named by the finding's "class"
# holds for the failing case; every other violation of the same property is still reported.
import re


def _stream(case):
    f = case.split(" ")
    if f[0] != "cv" or len(f) < 5 or f[4] == "-":
        return b""
    try:
        return bytes.fromhex(f[4])
    except ValueError:
        return b""


def chunked_trailers(case):
    """The client's stream contains a chunked body whose last chunk is followed by a non-empty trailer
    section (a last-chunk line `0[;ext]` followed by a line that is not empty)."""
    s = _stream(case)
    if b"chunked" not in s.lower():
        return False
    return re.search(rb"\r\n[ \t]*\+?0+[ \t]*(;[^\r]*)?\r\n(?!\r\n)[^\r]", s) is not None


CLASSES = {"chunked_trailers": chunked_trailers}
