# lib/known.py — class predicates of the known findings (known_findings.json, status "known").
# A violation is reported as KNOWN-FINDING only when the predicate named by the finding's "class"
# holds for the failing case; every other violation of the same property is still reported.
import re


def _stream(case):
    f = case.split(" ")
    if f[0] != "cv" or len(f) < 5 or f[4] == "-":
        return b""
    try:
        return bytes.fromhex(f[4])
    except ValueError:
        return b""


def chunked_trailers(case):
    """The client's stream contains a chunked body whose last chunk is followed by a non-empty trailer
    section (a last-chunk line `0[;ext]` followed by a line that is not empty)."""
    s = _stream(case)
    if b"chunked" not in s.lower():
        return False
    return re.search(rb"\r\n[ \t]*\+?0+[ \t]*(;[^\r]*)?\r\n(?!\r\n)[^\r]", s) is not None


def _walk_torn(s, p):
    while True:
        le = s.find(b"\r\n", p)
        if le < 0:
            return False
        m = re.match(rb"^[ \t]*\+?([0-9a-fA-F]+)", s[p:le])
        if not m:
            return False
        n = int(m.group(1), 16)
        p = le + 2
        if n == 0:
            return False
        if p + n > len(s):
            return False
        if s[p + n:p + n + 2] != b"\r\n":
            return True          # payload complete, terminator wrong, incomplete or missing
        p += n + 2


def torn_chunk(case):
    """Some request of the stream has a chunked body in which a chunk's payload is complete but not
    followed by CR LF (a malformed or cut-off chunk terminator)."""
    s = _stream(case)
    start = 0
    while True:
        e = s.find(b"\r\n\r\n", start)
        if e < 0:
            return False
        if b"transfer-encoding" in s[start:e].lower() and _walk_torn(s, e + 4):
            return True
        start = e + 2


CLASSES = {"chunked_trailers": chunked_trailers, "torn_chunk": torn_chunk}
