# lib/swbase.py — scheduled runs of the real writer chain (src/util/sequential.rs) under the controllable runtime
# (`sws` executor, hook H2) for C01 and C06: script generator, the line handed to the model's lock-step replay
# (`swr`), and a model-independent oracle that states the two properties directly on the recorded run.
import re

AFTER_PREFIXES = ("sws ", "srs ")


def hexs(b):
    return b.hex()


def gen_script(rng, idx, live):
    """One script: n writers, k threads (plus the connection thread `m`, which creates the writers, starts the
    threads and may keep a writer for itself, as it does for its own 400/417 answers).
    live=True: every thread works on its writers in index order and drops each before touching the next one, and the
    connection thread touches a writer of its own only when every thread is started: such a script can always run to
    completion (the least undropped writer is always the next thing its owner works on).  live=False: the operations of
    a thread's writers are shuffled (per-writer order kept) and the connection thread works on its own writers as soon
    as they exist: such a script may block for ever, and then the model must block at the same operations."""
    n = rng.choice([2, 2, 3, 3, 4, 5, 6, 7])
    k = rng.choice([1, 2, 2, 3, 3, 4])
    owner = []
    for i in range(n):
        owner.append("m" if rng.chance(1, 8) else rng.below(k))
    per_writer = {}
    for i in range(n):
        ops = []
        kind = rng.below(6)
        nwr = 0 if kind == 0 else rng.choice([1, 1, 2, 3])
        for c in range(nwr):
            size = rng.choice([0, 1, 1, 2, 3]) if c else rng.choice([1, 2, 3])
            data = bytes([(16 * (i + 1) + c * 4 + x) % 256 for x in range(size)])
            ops.append("%s%d:%s" % ("v" if size >= 2 and rng.chance(1, 4) else "w", i, hexs(data)))
            if rng.chance(1, 3):
                ops.append("f%d" % i)
        if kind == 1:
            ops.insert(0, "f%d" % i)            # flush before anything was written
        ops.append("d%d" % i)
        per_writer[i] = ops
    threads = [[] for _ in range(k)]
    main_own = []
    for t in list(range(k)) + ["m"]:
        mine = [i for i in range(n) if owner[i] == t]
        if live:
            seq = [o for i in mine for o in per_writer[i]]
        else:
            queues = [list(per_writer[i]) for i in mine]
            seq = []
            while any(queues):
                q = rng.choice([q for q in queues if q])
                seq.append(q.pop(0))
        if t == "m":
            main_own = seq
        else:
            threads[t] = seq
    main = []
    started = set()
    early = set()
    for i in range(n):
        main.append("N")
        if not live and owner[i] == "m" and rng.chance(1, 2):
            main += per_writer[i]               # the connection thread works on its own writer as soon as it exists
            early.add(i)
        for t in range(k):
            mine = [x for x in range(n) if owner[x] == t]
            if t not in started and mine and max(mine) <= i and rng.chance(2, 3):
                main.append("S%d" % t)
                started.add(t)
    for t in range(k):
        if t not in started and any(owner[x] == t for x in range(n)):
            main.append("S%d" % t)
    for o in main_own:
        if int(re.match(r"[wfdv](\d+)", o).group(1)) not in early:
            main.append(o)
    bd = rng.below(2)
    parts = ["bd=%d" % bd, "live=%d" % (1 if live else 0), "main=" + ",".join(main)]
    for t in range(k):
        parts.append("t%d=%s" % (t, ",".join(threads[t])))
    return " ".join(parts), {"sws_writers": n, "sws_threads": k, "sws_live": int(live)}


def gen_sws(tier, rng):
    nscripts = 150 if tier == "quick" else 3000
    nseeds = 3 if tier == "quick" else 8
    for idx in range(nscripts):
        live = not rng.chance(1, 4)
        body, tags = gen_script(rng, idx, live)
        for s in range(nseeds):
            yield "sws %d %s" % (1 + rng.below(10 ** 9), body), dict(tags, exec="sws")


def to_reader_ops(body, rng):
    """turns a writer script into a reader script: a write of k bytes becomes a read with a buffer of 1..k+2 bytes, a
    flush becomes a zero-length read"""
    def conv(op):
        if op[0] in "wv":
            i, d = op[1:].split(":")
            return "r%s:%d" % (i, max(0, len(d) // 2 + rng.choice([-1, 0, 0, 1, 2])))
        if op[0] == "f":
            return "r%s:0" % op[1:]
        return op
    out = []
    for x in body.split(" "):
        if x.startswith("main=") or re.match(r"t\d+=", x):
            k, v = x.split("=", 1)
            out.append(k + "=" + ",".join(conv(o) if o and o[0] in "wfdv" else o for o in v.split(",")))
        else:
            out.append(x)
    return " ".join(out)


def gen_srs(tier, rng):
    """the reader chain (SequentialReader): the same script shapes, reads instead of writes, over a source of 0..40 bytes"""
    nscripts = 100 if tier == "quick" else 2000
    nseeds = 3 if tier == "quick" else 8
    for idx in range(nscripts):
        live = not rng.chance(1, 4)
        body, tags = gen_script(rng, idx, live)
        body = to_reader_ops(body, rng)
        n = rng.choice([0, 3, 10, 25, 40])
        src = bytes([(7 * k + idx) % 251 for k in range(n)]).hex() or "-"
        body = body.replace("live=", "src=%s live=" % src, 1)
        for s in range(nseeds):
            yield "srs %d %s" % (1 + rng.below(10 ** 9), body), dict(tags, exec="srs")


def parse(obs):
    m = re.match(r"labels=(\S+) stream=(\S+) done=(\S+) pend=(\S+) dead=(\d)(?: got=(\S+))?", obs)
    if not m:
        return None
    return {"got": {} if not m.group(6) or m.group(6) == "-" else dict((int(x.split(":")[0]), x.split(":")[1]) for x in m.group(6).split(",")),"labels": [] if m.group(1) == "-" else m.group(1).split(";"),
            "stream": "" if m.group(2) == "-" else m.group(2),
            "done": dict((x.split(":")[0], int(x.split(":")[1])) for x in m.group(3).split(",")),
            "pend": [] if m.group(4) == "-" else [tuple(x.split("/", 1)) for x in m.group(4).split(",")],
            "dead": m.group(5) == "1", "raw": m}


def model_line_after(case, obs):
    o = parse(obs)
    if o is None:
        return "#"
    m = o["raw"]
    sc = scripts(case)
    # a gathered write is a write for the model
    sc = dict((k, [("w" + op[1:]) if op[0] == "v" else op for op in v]) for k, v in sc.items())
    rd = case.startswith("srs ")
    if rd:
        # a read is the model's Write with the bytes it obtained; enabledness does not depend on the data
        sc = dict((k, [re.sub(r"^r(\d+):\d+$", r"w\1:", op) for op in v]) for k, v in sc.items())
    nw = sum(1 for x in case.split(" ") if x.startswith("main=") for y in x[5:].split(",") if y == "N")
    progs = [",".join(sc.get("m", []))] + [",".join(sc[k]) for k in sorted((k for k in sc if k != "m"), key=lambda z: int(z[1:]))]
    mainops = [y for x in case.split(" ") if x.startswith("main=") for y in x[5:].split(",") if y]
    last_s = max([i for i, y in enumerate(mainops) if y[0] == "S"] + [-1])
    first_own = min([i for i, y in enumerate(mainops) if y[0] in "wfdrv"] + [len(mainops)])
    late = "1" if first_own > last_s else "0"
    pend = m.group(4)
    if pend != "-":
        pend = ",".join(re.sub(r"/v(\d+):", r"/w\1:", x) for x in pend.split(","))
    if rd and pend != "-":
        pend = ",".join(re.sub(r"/r(\d+):\d+$", r"/w\1:", x) for x in pend.split(","))
    return "swr %s %s %s %s %d|%s %s" % (m.group(1), m.group(2), pend, "1" if " live=1" in case else "0", nw, "|".join(progs), late)


def agree_after(im, mo):
    return mo.startswith("LOCKSTEP-OK")


def scripts(case):
    out = {}
    for x in case.split(" ")[2:]:
        if x.startswith("main="):
            out["m"] = [o for o in x[5:].split(",") if o and o[0] in "wfdrv"]
        elif re.match(r"t\d+=", x):
            nm, ops = x.split("=", 1)
            out[nm] = [o for o in ops.split(",") if o]
    return out


def coalesce(ops):
    """consecutive writes to one writer as one (a gathered write may reach the sink in one or in several pieces)"""
    out = []
    for op in ops:
        if op[0] == "v":
            op = "w" + op[1:]
        if op[0] == "w" and out and out[-1][0] == "w" and out[-1].split(":")[0] == op.split(":")[0]:
            out[-1] = out[-1] + op.split(":")[1]
        elif op[0] == "w" and op.endswith(":"):
            out.append(op)
        else:
            out.append(op)
    return [o for o in out if not (o[0] == "w" and o.endswith(":"))]


def oracle(case, obs):
    """C01 / C06 stated on the recorded run, without the model: (1) the sink received, writer after writer in index
    order, exactly what the completed write calls wrote (never interleaved); (2) nobody wrote, flushed or was dropped
    before every earlier writer was dropped; (3) each completed operation left exactly its own mark, in program order;
    (4) a script that can always make progress ran to completion: nothing is left blocked."""
    o = parse(obs)
    if o is None:
        return "FAIL unreadable observation: " + obs[:200]
    sc = scripts(case)
    owner = {}
    for nm, ops in sc.items():
        for op in ops:
            owner[int(re.match(r"[wfdrv](\d+)", op).group(1))] = nm
    # (3)
    per = {nm: [] for nm in sc}
    dropped = set()
    for l in o["labels"]:
        if l == "N":
            continue
        i = int(re.match(r"[WFD](\d+)", l).group(1))
        if i not in owner:
            return "FAIL a mark for writer %d, which no script uses: %s" % (i, l)
        # (2)
        missing = [j for j in range(i) if j not in dropped]
        if missing:
            return "FAIL %s happened while writer %d was not yet dropped" % (l, missing[0])
        if l[0] == "D":
            if i in dropped:
                return "FAIL writer %d released its successor twice" % i
            dropped.add(i)
        per[owner[i]].append(l[0].lower() + l[1:])
    rd = case.startswith("srs ")
    for nm, ops in sc.items():
        dn = o["done"].get(nm, 0)
        if rd:
            # a read leaves the mark of what the source handed out: same reader, at most the buffer's size
            exp, seen = ops[:dn], per[nm]
            ok = len(exp) == len(seen)
            for a, b in zip(exp, seen):
                if a[0] == "r":
                    i, n = a[1:].split(":")
                    ok = ok and b.startswith("w%s:" % i) and len(b.split(":")[1]) // 2 <= int(n)
                else:
                    ok = ok and a == b
            if not ok:
                return "FAIL %s completed %s but the marks are %s" % (nm, ",".join(exp) or "-", ",".join(seen) or "-")
            continue
        if coalesce(per[nm]) != coalesce(ops[:dn]):
            return "FAIL %s completed %s but its marks are %s" % (nm, ",".join(ops[:dn]) or "-", ",".join(per[nm]) or "-")
    # (1)
    want = {}
    for l in o["labels"]:
        if l[0] == "W":
            i, d = l[1:].split(":")
            want.setdefault(int(i), []).append(d)
    expect = "".join("".join(want[i]) for i in sorted(want))
    if o["stream"] != expect:
        return "FAIL the sink holds %s; writer after writer the completed writes are %s" % (o["stream"] or "-", expect or "-")
    if rd:
        src = re.search(r" src=(\S+)", case).group(1)
        src = "" if src == "-" else src
        mine = "".join(o["got"][i] for i in sorted(o["got"]))
        if mine != o["stream"] or not src.startswith(mine):
            return "FAIL reader after reader the calls obtained %s; the source handed out %s of %s" % (mine or "-", o["stream"] or "-", src or "-")
    # (4)
    if " live=1" in case:
        if o["dead"] or o["pend"]:
            return "FAIL a script that can always make progress is blocked for ever at %s" % (
                ",".join("%s/%s" % p for p in o["pend"]) or "?")
        for nm, ops in sc.items():
            if o["done"].get(nm, 0) != len(ops):
                return "FAIL %s completed %d of %d operations" % (nm, o["done"].get(nm, 0), len(ops))
    return "OK"


def nontrivial(case, mo):
    return len(scripts(case)) >= 2
