# lib/annot.py — the generic oracle of the connection-level properties: a case line carries
# `w?=` annotations computed by the generator from the ABSTRACT conversation (what the property
# demands for that case, derived from the property text, not from the Coq model); the oracle
# compares them with what the implementation did.
#   wu=  expected delivered request targets, in order (hex, comma separated; `-` = none)
#   wm=  expected method tokens, per delivered request
#   wv=  expected versions
#   wh=  expected header lists  (n:v+n:v per request; `_` = empty list)
#   wl=  expected body_length   (`N` = None)
#   wb=  expected bytes obtained by the handler
#   wre= expected end of the handler's read loops (count|eof|err)
#   ws=  expected status codes on the wire, in order (interim ones included)
#   wrb= expected response bodies as a client recovers them, per response
#   we=  expected end of the connection (closed|open)
#   hd=  per final response: 1 if it answers a HEAD request
# In every list `~` means "not constrained by this property".
from obs import parse_obs, parse_responses, unhex


def fields(case):
    d = {}
    for x in case.split(" ")[6:]:
        if "=" in x:
            k, v = x.split("=", 1)
            d[k] = v
    return d


def lst(v):
    return [] if v == "-" else v.split(",")


def check(case, obs_line, prop_name=""):
    a = fields(case)
    o = parse_obs(obs_line)
    if o.special is not None:
        if o.special.startswith("SKIP"):
            return "SKIP"
        return "FAIL implementation: " + o.special[:200]
    if o.end == "hang":
        return "FAIL the connection hangs: the client has sent everything and closed its sending side, the server neither answers nor closes"
    if o.stray:
        return "FAIL %d request(s) delivered after the conversation was over" % o.stray
    for r in o.reqs:
        if r.addr_wrong:
            return "FAIL remote_addr is not the client's socket address"
        if r.end == "respond-err":
            return "FAIL respond() returned an error"
    if "wu" in a:
        want = [unhex(x) for x in lst(a["wu"])]
        got = [r.url for r in o.reqs]
        if want != got:
            return "FAIL delivered requests %r, expected %r" % ([g[:30] for g in got], [w[:30] for w in want])

    def per_req(key, getter, name, conv=unhex):
        if key not in a:
            return None
        want = lst(a[key])
        if a[key] == "-" and len(o.reqs) == 1:
            want = ["-"]          # a one-element list whose element is the empty byte string
        if len(want) != len(o.reqs):
            return "FAIL %d requests delivered, %d expected" % (len(o.reqs), len(want))
        for i, (w, r) in enumerate(zip(want, o.reqs)):
            if w == "~":
                continue
            if conv(w) != getter(r):
                return "FAIL request %d: %s is %r, expected %r" % (i, name, getter(r) if not isinstance(getter(r), bytes) else getter(r)[:60], conv(w) if not isinstance(conv(w), bytes) else conv(w)[:60])
        return None

    def hl(w):
        if w == "_":
            return []
        out = []
        for h in w.split("+"):
            n, v = h.split(":")
            out.append((unhex(n), unhex(v)))
        return out

    for key, getter, name, conv in (
            ("wm", lambda r: r.method, "method", unhex),
            ("wv", lambda r: r.version, "version", str),
            ("wh", lambda r: r.headers, "header list", hl),
            ("wl", lambda r: r.body_length, "body_length", lambda w: None if w == "N" else int(w)),
            ("wb", lambda r: r.read, "body read", unhex),
            ("wre", lambda r: r.end, "read end", str)):
        v = per_req(key, getter, name, conv)
        if v:
            return v
    if "ws" in a or "wrb" in a:
        heads = [x == "1" for x in lst(a["hd"])] if "hd" in a else None
        resps, left, err = parse_responses(o.wire, heads)
        if err or left:
            return "FAIL response stream does not split into well-formed messages (%s, %d bytes left)" % (err, len(left))
        if "ws" in a:
            want = [int(x) for x in lst(a["ws"])]
            got = [r.status for r in resps]
            if want != got:
                return "FAIL status sequence %r, expected %r" % (got, want)
        if "wrb" in a:
            want = lst(a["wrb"])
            if a["wrb"] == "-" and len(resps) == 1:
                want = ["-"]      # one response whose body is empty
            if len(want) != len(resps):
                return "FAIL %d responses, %d expected" % (len(resps), len(want))
            for i, (w, r) in enumerate(zip(want, resps)):
                if w != "~" and unhex(w) != r.body:
                    return "FAIL response %d: body %r, expected %r" % (i, r.body[:40], unhex(w)[:40])
    if "we" in a and a["we"] != "~" and a["we"] != o.end:
        return "FAIL connection end is %s, expected %s" % (o.end, a["we"])
    return "OK"
