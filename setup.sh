#!/bin/sh
# setup.sh — builds the framework from files on disk only (offline): the whole Coq development
# (full .vo build), the extracted model + OCaml driver, and the Rust harness against /repo.
set -e
cd "$(dirname "$0")"
export CARGO_NET_OFFLINE=true
mkdir -p run evidence replays
cd coq
coq_makefile -f _CoqProject -o Makefile
(ulimit -v 16000000; timeout 3000 make -j16)
cd ../ocaml
./build.sh
cd ../harness
RUSTFLAGS="--cfg tiny_http_verif" cargo build --offline --release
echo "setup done"
